"""Frame conditions: detect writes to state that outlives a call (module globals, class attributes)."""
from __future__ import annotations

import collections
import sys
import types

_REG = None


def _walk(obj, depth, reg, owner):
    if depth < 0 or obj is None or isinstance(obj, (int, str, bytes, float, bool, range, types.FunctionType, types.BuiltinFunctionType, types.ModuleType, property, classmethod, staticmethod)):
        return
    i = id(obj)
    if isinstance(obj, (dict, list, set, collections.defaultdict)):
        if i in reg:
            return
        reg[i] = (obj, owner)
        vals = obj.values() if isinstance(obj, dict) else obj
        try:
            for v in list(vals):
                _walk(v, depth - 1, reg, owner)
        except Exception:
            pass
    elif isinstance(obj, tuple):
        for v in obj:
            _walk(v, depth - 1, reg, owner)
    elif isinstance(obj, type):
        return
    elif hasattr(obj, "__dict__") and not callable(obj):
        if i in reg:
            return
        reg[i] = (obj, owner)
        for v in list(vars(obj).values()):
            _walk(v, depth - 1, reg, owner)


def registry():
    """id -> (object, owner description) for mutable objects reachable from tpmstream modules and classes"""
    global _REG
    if _REG is not None:
        return _REG
    reg = {}
    try:
        import importlib
        import pkgutil

        import tpmstream

        for mi in pkgutil.walk_packages(tpmstream.__path__, "tpmstream."):
            if any(x in mi.name for x in ("tpm_pytss", "tcti", "__main__")):
                continue
            try:
                importlib.import_module(mi.name)
            except Exception:
                pass
    except Exception:
        pass
    for mname, mod in list(sys.modules.items()):
        if not mname.startswith("tpmstream") or mod is None:
            continue
        for k, v in list(vars(mod).items()):
            if k.startswith("__"):
                continue
            if isinstance(v, type):
                if (getattr(v, "__module__", "") or "").startswith("tpmstream"):
                    reg[id(v)] = (v, f"class {v.__module__}.{v.__qualname__}")
                    for ck, cv in list(vars(v).items()):
                        if ck.startswith("__") and ck not in ("__annotations__",):
                            continue
                        _walk(cv, 3, reg, f"{v.__module__}.{v.__qualname__}.{ck}")
            else:
                _walk(v, 3, reg, f"{mname}.{k}")
        reg[id(mod)] = (mod, f"module {mname}")
    _REG = reg
    return reg


def owner_of(obj):
    r = registry().get(id(obj))
    if r is not None and r[0] is obj:
        return r[1]
    return None


def fingerprint():
    """shallow content fingerprint of every registered container / instance / class namespace"""
    out = {}
    for i, (obj, owner) in registry().items():
        try:
            if isinstance(obj, collections.defaultdict) and obj.default_factory is not None:
                d = obj.default_factory()
                out[i] = hash(tuple((id(k) if not isinstance(k, (int, str)) else k) for k, v in obj.items() if v != d))
            elif isinstance(obj, dict):
                out[i] = hash(tuple((k if isinstance(k, (int, str)) else id(k), id(v)) for k, v in obj.items()))
            elif isinstance(obj, (list, set)):
                out[i] = hash(tuple(sorted(id(v) for v in obj)) if isinstance(obj, set) else tuple(id(v) for v in obj))
            elif isinstance(obj, types.ModuleType):
                # (a sub-module appearing as an attribute of its package is an import effect, not program state)
                out[i] = hash(tuple((k, id(v)) for k, v in vars(obj).items() if not isinstance(v, types.ModuleType)))
            elif isinstance(obj, type):
                out[i] = hash(tuple((k, id(v)) for k, v in vars(obj).items()))
            else:
                out[i] = hash(tuple((k, id(v)) for k, v in vars(obj).items()))
        except Exception:
            out[i] = 0
    return out


def diff_fingerprint(a, b):
    reg = registry()
    return [reg[i][1] for i in a if i in b and a[i] != b[i]]


_DEFAULTS = None


def default_arg_ids():
    """ids of mutable default-argument objects of tpmstream functions (shared across calls)"""
    global _DEFAULTS
    if _DEFAULTS is None:
        registry()
        ids = set()
        for mname, m in list(sys.modules.items()):
            if not mname.startswith("tpmstream") or m is None:
                continue
            for v in list(vars(m).values()):
                fs = []
                if isinstance(v, types.FunctionType):
                    fs.append(v)
                elif isinstance(v, type):
                    for cv in vars(v).values():
                        f = cv.__func__ if isinstance(cv, (classmethod, staticmethod)) else cv
                        if isinstance(f, types.FunctionType):
                            fs.append(f)
                for f in fs:
                    for d in (f.__defaults__ or ()) + tuple((f.__kwdefaults__ or {}).values()):
                        if isinstance(d, (list, dict, set)) or (hasattr(d, "__dict__") and not isinstance(d, type) and not callable(d)):
                            ids.add(id(d))
        _DEFAULTS = ids
    return _DEFAULTS
