"""SMT back ends: z3 (python API, incremental per path) and cvc5 (CLI on the exported query)."""
from __future__ import annotations

import os
import subprocess
import tempfile
import time

import z3

Z3_TIMEOUT_MS = int(os.environ.get("PYVC_Z3_MS", "10000"))
CVC5_TIMEOUT_MS = int(os.environ.get("PYVC_CVC5_MS", "20000"))
CVC5_BIN = "/usr/bin/cvc5"

DEADLINE = [None]  # wall-clock deadline of the current unit (set by the harness); past it every query is 'unknown'

STATS = {"z3_queries": 0, "z3_time": 0.0, "cvc5_queries": 0, "cvc5_time": 0.0}


def smt2_of(assertions):
    s = z3.Solver()
    for a in assertions:
        s.add(a)
    return s.to_smt2()


def cvc5_check(assertions, timeout_ms=None):
    """returns 'sat' | 'unsat' | 'unknown'"""
    if DEADLINE[0] is not None and time.time() > DEADLINE[0]:
        return "unknown"
    text = smt2_of(assertions)
    # z3 emits (set-info :status ...) and (check-sat); cvc5 wants a logic
    text = "(set-logic ALL)\n" + text
    t0 = time.time()
    STATS["cvc5_queries"] += 1
    with tempfile.NamedTemporaryFile("w", suffix=".smt2", delete=False) as f:
        f.write(text)
        fn = f.name
    try:
        r = subprocess.run(
            [CVC5_BIN, "--lang", "smt2", f"--tlimit={timeout_ms or CVC5_TIMEOUT_MS}", fn],
            capture_output=True,
            text=True,
            timeout=(timeout_ms or CVC5_TIMEOUT_MS) / 1000 + 10,
        )
        out = r.stdout.strip().splitlines()
        res = out[0].strip() if out else "unknown"
        if res not in ("sat", "unsat"):
            res = "unknown"
    except Exception:
        res = "unknown"
    finally:
        try:
            os.unlink(fn)
        except OSError:
            pass
    STATS["cvc5_time"] += time.time() - t0
    return res


class PathSolver:
    """incremental z3 solver carrying the path condition"""

    def __init__(self):
        self.s = z3.Solver()
        self.s.set("timeout", Z3_TIMEOUT_MS)
        self.pc = []

    def add(self, f):
        if z3.is_true(f):
            return
        self.pc.append(f)
        self.s.add(f)

    def check(self, *extra):
        """satisfiability of pc ∧ extra: 'sat' | 'unsat' | 'unknown'"""
        t0 = time.time()
        if DEADLINE[0] is not None and t0 > DEADLINE[0]:
            return "unknown"
        STATS["z3_queries"] += 1
        if DEADLINE[0] is not None:
            self.s.set("timeout", int(max(100, min(Z3_TIMEOUT_MS, (DEADLINE[0] - t0) * 1000))))
        r = self.s.check(*extra)
        STATS["z3_time"] += time.time() - t0
        if r == z3.sat:
            return "sat"
        if r == z3.unsat:
            return "unsat"
        return "unknown"

    def model(self):
        return self.s.model()

    def feasible(self, f):
        """may pc ∧ f hold?  unknown counts as feasible (over-approximation is sound here)"""
        f = z3.simplify(f)
        if z3.is_true(f):
            return True
        if z3.is_false(f):
            return False
        return self.check(f) != "unsat"

    def prove(self, goal, both=False):
        """is pc ⇒ goal valid?  returns (status, backend, model|None, seconds)
        status: 'proved' | 'refuted' | 'undecided'"""
        t0 = time.time()
        g = z3.simplify(goal)
        if z3.is_true(g):
            return ("proved", "simplifier", None, 0.0)
        r = self.check(z3.Not(g))
        backend = "z3"
        model = None
        if r == "sat":
            model = self.s.model()
            status = "refuted"
        elif r == "unsat":
            status = "proved"
        else:
            status = "undecided"
        if status == "undecided" or both:
            r2 = cvc5_check(self.pc + [z3.Not(g)])
            if status == "undecided":
                backend = "cvc5"
                if r2 == "unsat":
                    status = "proved"
                elif r2 == "sat":
                    status = "refuted"  # no model from the CLI; caller reports no-failing-input-found
            else:
                if r2 != "unknown" and (r2 == "unsat") != (status == "proved"):
                    status = "disagree"
                backend = "z3+cvc5" if r2 != "unknown" else "z3"
        return (status, backend, model, time.time() - t0)
