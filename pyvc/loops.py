"""Loop rules for loops with symbolic bounds (DESIGN §2.5): inductive-invariant style, specialised per loop shape."""
from __future__ import annotations

import z3

from . import sym as S
from .interp import PathEnd, Unsupported


def pos_add(ctx, n):
    ctx.ghost["pos"] = z3.simplify(ctx.ghost.get("pos", z3.IntVal(0)) + n)


class CountedYieldLoop:
    """`for _ in range(count): _ = yield`  — consume_bytes.

    Rule: (A) an arbitrary iteration k (0 <= k < count) executes the real body once; it must request exactly one byte
    and emit nothing; (B) after the loop the trace has gained max(count, 0) discarded Needs.
    A concrete count is unrolled."""

    kind = "for"

    def __init__(self, label="consume_bytes"):
        self.label = label

    def run(self, I, node, frame):
        from .models import SRange

        ctx = I.ctx
        it = yield from I.eval(node.iter, frame)
        if isinstance(it, range):
            for k in it:
                yield from I.assign(node.target, k, frame)
                yield from I.exec_block(node.body, frame)
            return
        if not isinstance(it, SRange) or not (isinstance(it.lo, int) and it.lo == 0):
            raise Unsupported("CountedYieldLoop: unexpected iterable")
        count = S.term(it.hi)
        which = ctx.fork([z3.BoolVal(True), z3.BoolVal(True)], f"loop:{self.label}")
        if which == 0:
            k = ctx.fresh_int("k", 0)
            if not ctx.solver.feasible(k < count):
                raise PathEnd("infeasible")
            ctx.assume(k < count)
            yield from I.assign(node.target, S.SInt(k), frame)
            before = len(ctx.trace)
            yield from I.exec_block(node.body, frame)
            seg = ctx.trace[before:]
            ok = len(seg) == 1 and seg[0][0] == "need"
            ctx.record(f"LOOP/{self.label}/iteration-consumes-exactly-one-byte", ok, "loop", I.site(node, frame), detail=f"iteration trace {seg!r}")
            raise PathEnd("loop-iteration")
        n = z3.simplify(z3.If(count >= 0, count, z3.IntVal(0)))
        ctx.trace.append(("needs", n))
        pos_add(ctx, n)


class OneStepLoop:
    """step refinement: execute the loop body exactly once from a given state (locals installed at the loop head);
    the outcome (how the body ended, locals afterwards) is left in ctx.ghost['step']; yields go to the driver"""

    def __init__(self, state, kind=None):
        self.state = state
        self.kind = kind

    def run(self, I, node, frame):
        from .interp import _Continue, _Break

        import ast as _ast

        if isinstance(node, _ast.For):
            # the iterable expression is evaluated as in the real code (it may create the iterator the body shares)
            it = yield from I.eval(node.iter, frame)
            frame.locals["__loop_iterable__"] = it
        frame.locals.update(self.state)
        how = "fallthrough"
        try:
            yield from I.exec_block(node.body, frame)
        except _Continue:
            how = "continue"
        except _Break:
            # the body left the loop: execution continues behind it
            I.ctx.ghost["step"] = {"how": "break", "locals": dict(frame.locals)}
            return
        I.ctx.ghost["step"] = {"how": how, "locals": dict(frame.locals)}
        raise PathEnd("step")
