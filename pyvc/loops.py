"""Loop rules for loops with symbolic bounds (DESIGN §2.5): inductive-invariant style, specialised per loop shape."""
from __future__ import annotations

import z3

from . import sym as S
from .interp import PathEnd, Unsupported


def pos_add(ctx, n):
    ctx.ghost["pos"] = z3.simplify(ctx.ghost.get("pos", z3.IntVal(0)) + n)


class CountedYieldLoop:
    """`for _ in range(count): _ = yield`  — consume_bytes.

    Rule: (A) an arbitrary iteration k (0 <= k < count) executes the real body once; it must request exactly one byte
    and emit nothing; (B) after the loop the trace has gained max(count, 0) discarded Needs.
    A concrete count is unrolled."""

    kind = "for"

    def __init__(self, label="consume_bytes"):
        self.label = label

    def run(self, I, node, frame):
        from .models import SRange

        ctx = I.ctx
        it = yield from I.eval(node.iter, frame)
        if isinstance(it, range):
            for k in it:
                yield from I.assign(node.target, k, frame)
                yield from I.exec_block(node.body, frame)
            return
        if not isinstance(it, SRange) or not (isinstance(it.lo, int) and it.lo == 0):
            raise Unsupported("CountedYieldLoop: unexpected iterable")
        count = S.term(it.hi)
        which = ctx.fork([z3.BoolVal(True), z3.BoolVal(True)], f"loop:{self.label}")
        if which == 0:
            k = ctx.fresh_int("k", 0)
            if not ctx.solver.feasible(k < count):
                raise PathEnd("infeasible")
            ctx.assume(k < count)
            yield from I.assign(node.target, S.SInt(k), frame)
            before = len(ctx.trace)
            yield from I.exec_block(node.body, frame)
            seg = ctx.trace[before:]
            ok = len(seg) == 1 and seg[0][0] == "need"
            ctx.record(f"LOOP/{self.label}/iteration-consumes-exactly-one-byte", ok, "loop", I.site(node, frame), detail=f"iteration trace {seg!r}")
            raise PathEnd("loop-iteration")
        n = z3.simplify(z3.If(count >= 0, count, z3.IntVal(0)))
        ctx.trace.append(("needs", n))
        pos_add(ctx, n)


class CountdownWhileLoop:
    """`while <test over one integer local c>: <body>` meant to do something exactly max(c0, 0) times and stop
    (the while-form of consume_bytes).  Rule, for the entry value c0 of c:
      (I) the loop is entered iff c0 >= 1;
      (A) an arbitrary iteration from 1 <= c <= c0: the guard holds, the real body, executed once, requests exactly one
          byte, emits nothing and leaves c - 1 (invariant 0 <= c <= c0 kept, variant c decreases);
      (E) with c = 0 the guard is false;
    then the trace has gained max(c0, 0) discarded Needs."""

    kind = "while"

    def __init__(self, label="consume_bytes"):
        self.label = label

    def run(self, I, node, frame):
        import ast as _ast

        ctx = I.ctx
        site = I.site(node, frame)
        names = sorted({n.id for n in _ast.walk(node.test) if isinstance(n, _ast.Name) and isinstance(frame.locals.get(n.id), (S.SInt, int)) and not isinstance(frame.locals.get(n.id), bool)})
        if len(names) != 1:
            raise Unsupported(f"CountdownWhileLoop: the guard does not test exactly one integer local ({names})")
        cn = names[0]
        c0v = frame.locals[cn]
        if isinstance(c0v, int):
            # concrete count: plain execution with a generous cap
            for _ in range(max(c0v, 0) + 2):
                t = yield from I.eval(node.test, frame)
                if not I.truth(t):
                    return
                yield from I.exec_block(node.body, frame)
            ctx.record(f"LOOP/{self.label}/terminates-after-count-iterations", False, "loop", site, detail=f"count {c0v}")
            raise PathEnd("loop-iteration")
        c0 = S.term(c0v)
        which = ctx.fork([z3.BoolVal(True)] * 3, f"loop:{self.label}")
        if which == 0:
            # (I) entry
            t = yield from I.eval(node.test, frame)
            entered = I.truth(t)
            ctx.oblige(f"LOOP/{self.label}/entered-iff-count-is-positive", (c0 >= 1) if entered else (c0 <= 0), "loop", site,
                       detail="the loop must run exactly when there is something to consume (a negative count consumes nothing)")
            raise PathEnd("loop-iteration")
        if which == 1:
            # (A) arbitrary iteration / (E) exit value
            c = ctx.fresh_int("c", 0)
            if not ctx.solver.feasible(z3.And(c >= 0, c <= c0)):
                raise PathEnd("infeasible")
            ctx.assume(c <= c0)
            frame.locals[cn] = S.SInt(c)
            t = yield from I.eval(node.test, frame)
            if not I.truth(t):
                ctx.oblige(f"LOOP/{self.label}/guard-false-only-at-zero", c == 0, "loop", site)
                raise PathEnd("loop-iteration")
            ctx.oblige(f"LOOP/{self.label}/guard-true-only-above-zero", c >= 1, "loop", site)
            before = len(ctx.trace)
            yield from I.exec_block(node.body, frame)
            seg = ctx.trace[before:]
            ok = len(seg) == 1 and seg[0][0] == "need"
            ctx.record(f"LOOP/{self.label}/iteration-consumes-exactly-one-byte", ok, "loop", site, detail=f"iteration trace {seg!r}")
            c1 = frame.locals.get(cn)
            if isinstance(c1, (S.SInt, int)) and not isinstance(c1, bool):
                ctx.oblige(f"LOOP/{self.label}/count-decreases-by-one", S.term(c1) == c - 1, "loop", site)
            else:
                ctx.record(f"LOOP/{self.label}/count-decreases-by-one", False, "loop", site, detail=repr(c1))
            raise PathEnd("loop-iteration")
        n = z3.simplify(z3.If(c0 >= 0, c0, z3.IntVal(0)))
        frame.locals[cn] = S.SInt(z3.simplify(z3.If(c0 >= 0, z3.IntVal(0), c0)))
        ctx.trace.append(("needs", n))
        pos_add(ctx, n)


class CountedLoopAny:
    """consume_bytes in either form: `for _ in range(count)` or `while count: ...; count -= 1`"""

    kind = None

    def __init__(self, label="consume_bytes"):
        self.f = CountedYieldLoop(label)
        self.w = CountdownWhileLoop(label)

    def run(self, I, node, frame):
        import ast as _ast

        yield from (self.f if isinstance(node, _ast.For) else self.w).run(I, node, frame)


class OneStepLoop:
    """step refinement: execute the loop body exactly once from a given state (locals installed at the loop head);
    the outcome (how the body ended, locals afterwards) is left in ctx.ghost['step']; yields go to the driver"""

    def __init__(self, state, kind=None, seed_empty_lists=None):
        self.state = state
        self.kind = kind
        # accumulators the code keeps besides `state`: every local that is an empty list at the loop head is replaced by a
        # copy of the seed (an arbitrary earlier content); their names are left in ctx.ghost['step_seeded']
        self.seed_empty_lists = seed_empty_lists

    def run(self, I, node, frame):
        from .interp import _Continue, _Break

        import ast as _ast

        if isinstance(node, _ast.For):
            # the iterable expression is evaluated as in the real code (it may create the iterator the body shares)
            it = yield from I.eval(node.iter, frame)
            frame.locals["__loop_iterable__"] = it
        frame.locals.update(self.state)
        if self.seed_empty_lists is not None:
            names = [n for n, v in frame.locals.items() if type(v) is list and not v and n not in self.state and not n.startswith("__")]
            for n in names:
                frame.locals[n] = list(self.seed_empty_lists)
            I.ctx.ghost["step_seeded"] = names
        how = "fallthrough"
        try:
            yield from I.exec_block(node.body, frame)
        except _Continue:
            how = "continue"
        except _Break:
            # the body left the loop: execution continues behind it
            I.ctx.ghost["step"] = {"how": "break", "locals": dict(frame.locals)}
            return
        I.ctx.ghost["step"] = {"how": how, "locals": dict(frame.locals)}
        raise PathEnd("step")
