"""Path enumeration by deterministic re-execution under a decision prefix; obligations; drivers."""
from __future__ import annotations

import os
import time
import traceback

import z3

from . import sym as S
from .interp import Interp, PyExc, Unsupported, PathEnd, IGen
from .smt import PathSolver


class Obligation:
    __slots__ = ("name", "kind", "site", "status", "backend", "seconds", "model", "detail", "path_id")

    def __init__(self, name, kind, site, status, backend="", seconds=0.0, model=None, detail=""):
        self.name = name
        self.kind = kind
        self.site = site
        self.status = status  # proved | refuted | undecided | disagree
        self.backend = backend
        self.seconds = seconds
        self.model = model
        self.detail = detail
        self.path_id = None

    def as_dict(self):
        return {
            "name": self.name, "kind": self.kind, "site": self.site, "status": self.status,
            "backend": self.backend, "seconds": round(self.seconds, 4), "model": self.model, "detail": self.detail,
        }


def model_to_dict(m):
    if m is None:
        return None
    out = {}
    for d in m.decls():
        try:
            v = m[d]
            if z3.is_int_value(v):
                out[d.name()] = v.as_long()
            elif z3.is_true(v) or z3.is_false(v):
                out[d.name()] = bool(z3.is_true(v))
            else:
                out[d.name()] = str(v)
        except Exception:
            pass
    return out


class Ctx:
    """per-path execution context"""

    def __init__(self, prefix=(), both=False):
        import os as _os

        both = both or bool(_os.environ.get("PYVC_BOTH"))
        self.prefix = list(prefix)
        self.taken = []
        self.pending = []
        self.solver = PathSolver()
        self.trace = []
        self.obligations = []
        self.ghost = {}
        self.safety_sites = {}
        self.both = both
        self.notes = []
        self.frame_writes = []
        self._formula_samples = 0

    # ---- branching
    def fork(self, options, label=""):
        """choose one of mutually exclusive, jointly exhaustive z3 conditions; returns its index"""
        k = len(self.taken)
        self._budget(k)
        if k < len(self.prefix):
            i = self.prefix[k]
        else:
            feas = None
            if len(options) > 4:
                # fast path: the path condition often pins the choice (e.g. a dict lookup after the key was fixed)
                if self.solver.check() == "sat":
                    m = self.solver.model()
                    tr = [j for j, o in enumerate(options) if z3.is_true(m.eval(o, model_completion=True))]
                    if len(tr) == 1 and self.solver.check(z3.Not(options[tr[0]])) == "unsat":
                        feas = tr
            if feas is None:
                feas = [j for j, o in enumerate(options) if self.solver.feasible(o)]
            if not feas:
                raise PathEnd("infeasible")
            i = feas[0]
            for j in feas[1:]:
                self.pending.append(self.taken + [j])
        self.taken.append(i)
        self.solver.add(z3.simplify(options[i]))
        return i

    def _budget(self, k):
        from . import smt as _smt

        if k > MAX_DECISIONS:
            raise Unsupported(f"more than {MAX_DECISIONS} decisions on one path (a loop without an invariant rule?)")
        if _smt.DEADLINE[0] is not None and time.time() > _smt.DEADLINE[0] + 5:
            raise Unsupported("time budget of the unit exhausted")

    def decide(self, cond, label=""):
        self._budget(len(self.taken))
        cond = z3.simplify(cond)
        if z3.is_true(cond):
            return True
        if z3.is_false(cond):
            return False
        return self.fork([cond, z3.Not(cond)], label) == 0

    def assume(self, f):
        self.solver.add(z3.simplify(f) if z3.is_expr(f) else z3.BoolVal(bool(f)))

    def assume_feasible(self, f):
        """assume f; end the path if that makes the path condition contradictory"""
        self.assume(f)
        if self.solver.check() == "unsat":
            raise PathEnd("infeasible")

    # ---- obligations
    def oblige(self, name, goal, kind="post", site="", detail=""):
        """pc ⇒ goal must be valid"""
        if isinstance(goal, bool):
            goal = z3.BoolVal(goal)
        status, backend, model, secs = self.solver.prove(goal, both=self.both)
        if backend not in ("simplifier",) and self._formula_samples < 2:
            # keep the text of a few verification conditions per path as evidence samples
            self._formula_samples += 1
            try:
                pc_txt = "; ".join(str(f) for f in self.solver.pc[-4:])
                detail = (detail + " | " if detail else "") + f"VC: [{pc_txt[:300]}] => {str(z3.simplify(goal))[:300]}"
            except Exception:
                pass
        ob = Obligation(name, kind, site, status, backend, secs, model_to_dict(model), detail)
        self.obligations.append(ob)
        return ob

    def record(self, name, ok, kind="post", site="", detail="", undecided=False):
        """an obligation decided structurally (no solver needed)"""
        st = "undecided" if undecided else ("proved" if ok else "refuted")
        model = None
        if st == "refuted":
            r = self.solver.check()
            if r == "unsat":
                st = "proved"  # the path condition is contradictory: vacuous
                detail = "(vacuous: infeasible path) " + detail
            elif r == "sat":
                model = model_to_dict(self.solver.model())
        ob = Obligation(name, kind, site, st, "structural", 0.0, model, detail)
        self.obligations.append(ob)
        return ob

    def witness(self):
        if self.solver.check() == "sat":
            return model_to_dict(self.solver.model())
        return None

    def count_safety(self, kind, site):
        key = (kind, site)
        self.safety_sites[key] = self.safety_sites.get(key, 0) + 1

    # ---- symbols
    def fresh_int(self, name, lo=None, hi=None):
        t = S.fresh_int(name)
        if lo is not None:
            self.solver.add(t >= lo)
        if hi is not None:
            self.solver.add(t <= hi)
        return t

    def fresh_bool(self, name):
        return S.fresh_bool(name)


MAX_DECISIONS = 2000


class PathResult:
    __slots__ = ("ctx", "outcome", "value", "decisions", "error")

    def __init__(self, ctx, outcome, value, error=None):
        self.ctx = ctx
        self.outcome = outcome  # return | raise | cut | unsupported
        self.value = value
        self.decisions = list(ctx.taken)
        self.error = error


def explore(run, max_paths=20000, both=False, time_budget=None):
    """run(ctx) -> (outcome, value); enumerates all feasible paths"""
    work = [[]]
    results = []
    t0 = time.time()
    while work:
        prefix = work.pop()
        S.reset_counter()
        ctx = Ctx(prefix, both=both)
        try:
            outcome, value = run(ctx)
            results.append(PathResult(ctx, outcome, value))
        except PathEnd as e:
            if e.reason != "infeasible":
                results.append(PathResult(ctx, "cut", e.reason))
        except Unsupported as e:
            if ctx.frame_writes:
                ctx.record("FRAME/no-write-to-shared-state", False, "frame", detail="; ".join(ctx.frame_writes[:3]))
            results.append(PathResult(ctx, "unsupported", str(e), error=traceback.format_exc(limit=6)))
        work.extend(ctx.pending)
        if os.environ.get("PYVC_STATS"):
            with open(os.environ["PYVC_STATS"], "a") as f:
                f.write(f"{len(ctx.taken)} {getattr(ctx, 'steps', 0)}\n")
        if len(results) > max_paths:
            results.append(PathResult(Ctx(), "unsupported", f"more than {max_paths} paths"))
            break
        from . import smt as _smt

        if (time_budget and time.time() - t0 > time_budget) or (_smt.DEADLINE[0] is not None and time.time() > _smt.DEADLINE[0]):
            results.append(PathResult(Ctx(), "unsupported", "time budget of the unit exhausted"))
            break
    return results


def drive_coroutine(ctx, igen, need_cb=None):
    """drive an interpreted decoder coroutine: feed a fresh symbolic byte for each `None`,
    `None` for each event; records the trace.  returns (outcome, value)"""
    to_send = None
    ctx.ghost.setdefault("pos", z3.IntVal(0))
    try:
        while True:
            y = igen.g.send(to_send)
            R = ctx.ghost.get("relay")
            if R is not None:
                # items of an abstract callee passed on by the walker (contracts/walker_stubs.relay_items)
                if y is None and R.get("need") is not None:
                    key = R.pop("need")
                    R["seen"].append(key)
                    from contracts.walker_stubs import RelayByte

                    to_send = RelayByte(key)
                    continue
                if y is not None and id(y) in R["objs"] and R["objs"][id(y)][1] is y:
                    R["seen"].append(R["objs"][id(y)][0])
                    to_send = None
                    continue
            if y is None:
                b = ctx.fresh_int("b", 0, 255)
                ctx.trace.append(("need", b))
                ctx.ghost["pos"] = z3.simplify(ctx.ghost["pos"] + 1)
                to_send = S.SInt(b)
            else:
                ctx.trace.append(("emit", y))
                err = getattr(y, "error", None)
                if err is not None and hasattr(err, "_pyvc_snap"):
                    # what the wrapped error says at the moment the warning leaves the walker
                    from contracts.walker_stubs import error_snapshot

                    ctx.ghost.setdefault("emit_snap", {})[id(y)] = error_snapshot(err)
                to_send = None
    except StopIteration as e:
        return ("return", e.value)
    except PyExc as e:
        return ("raise", e)


def run_function(ctx, fn, args, kwargs, stubs=None, loop_specs=None, coroutine=False):
    """interpret real function fn on (symbolic) arguments in ctx"""
    from .interp import run_sync

    I = Interp(ctx, stubs=stubs, loop_specs=loop_specs)
    ctx.interp = I
    try:
        if coroutine:
            g = I.call(fn, args, kwargs)
            try:
                next(g)
                raise Unsupported("call itself yielded")
            except StopIteration as e:
                igen = e.value
            if not isinstance(igen, IGen):
                return ("return", igen)
            return drive_coroutine(ctx, igen)
        v = run_sync(I.call(fn, args, kwargs))
        return ("return", v)
    except PyExc as e:
        return ("raise", e)


# ---------------------------------------------------------------------------------------------
# comparing an actual (symbolic) result with a spec function written from the property statement


class NeedSplit(Exception):
    def __init__(self, cond):
        self.cond = cond


class SpecEnv:
    """lets a spec function branch on conditions over the symbolic inputs: a condition must be
    decided by the path condition (+ the current case split); otherwise the case is split"""

    def __init__(self, ctx, extra):
        self.ctx = ctx
        self.extra = list(extra)

    def decide(self, cond):
        if isinstance(cond, bool):
            return cond
        cond = z3.simplify(cond)
        if z3.is_true(cond):
            return True
        if z3.is_false(cond):
            return False
        s = self.ctx.solver
        if s.check(*self.extra, z3.Not(cond)) == "unsat":
            return True
        if s.check(*self.extra, cond) == "unsat":
            return False
        raise NeedSplit(cond)

    def value(self, t):
        """the unique integer value of term t under the current case"""
        t = z3.simplify(t)
        if z3.is_int_value(t):
            return t.as_long()
        s = self.ctx.solver
        if s.check(*self.extra) != "sat":
            raise NeedSplit(z3.BoolVal(True))
        k = s.model().eval(t, model_completion=True).as_long()
        if s.check(*self.extra, t != k) == "unsat":
            return k
        raise NeedSplit(t == k)


class ConcreteEnv:
    """the same interface over a concrete assignment (used by replays)"""

    def __init__(self, subst):
        self.subst = subst  # list of (z3 const, z3 value)

    def _ev(self, t):
        return z3.simplify(z3.substitute(t, *self.subst))

    def decide(self, cond):
        if isinstance(cond, bool):
            return cond
        r = self._ev(cond)
        if z3.is_true(r):
            return True
        if z3.is_false(r):
            return False
        raise ValueError(f"condition not ground: {r}")

    def value(self, t):
        r = self._ev(t)
        return r.as_long()


def check_against_spec(ctx, name, spec_fn, goal_fn, kind="post", site="", max_cases=4096):
    """spec_fn(env) -> expected (may raise NeedSplit through env); goal_fn(expected) -> z3 Bool | bool
    emits one obligation per spec case compatible with the path"""
    obs = []
    stack = [[]]
    n = 0
    while stack:
        extra = stack.pop()
        n += 1
        if n > max_cases:
            obs.append(ctx.record(name + "#cases", False, kind, site, "too many spec cases", undecided=True))
            break
        if extra and ctx.solver.check(*extra) == "unsat":
            continue
        env = SpecEnv(ctx, extra)
        try:
            expected = spec_fn(env)
        except NeedSplit as ns:
            stack.append(extra + [ns.cond])
            stack.append(extra + [z3.Not(ns.cond)])
            continue
        try:
            goal = goal_fn(expected)
        except Unsupported as e:
            obs.append(ctx.record(name, False, kind, site, f"comparison unsupported: {e}", undecided=True))
            continue
        goals = goal if isinstance(goal, dict) else {"": goal}
        for sub, g in goals.items():
            nm = f"{name}/{sub}" if sub else name
            det = f"expected {expected!r}"[:400] if not isinstance(goal, dict) else ""
            if isinstance(g, tuple):
                g, det = g
            if isinstance(g, bool):
                if g or not extra:
                    ob = ctx.record(nm, g, kind, site, detail=det)
                else:
                    ob = ctx.oblige(nm, z3.Not(z3.And(extra)), kind, site, detail=det)
            else:
                gg = z3.Implies(z3.And(extra), g) if extra else g
                ob = ctx.oblige(nm, gg, kind, site, detail=det)
            obs.append(ob)
    return obs
