"""pyvc interpreter: symbolic evaluation of the AST of real functions, path by path.

Generator-style: exec/eval are Python generators; an interpreted `yield` is forwarded as a
Python `yield`, so the coroutine protocol of the decoder is executed, not modelled.
"""
from __future__ import annotations

import ast
import builtins
import dataclasses
import inspect
import operator
import textwrap
import types

import z3

from . import sym as S
from .sym import SInt, SBool, SStr, SBytes, Sym, term, bterm, lift_int, lift_bool, mk_str


class PyExc(Exception):
    """an interpreted Python exception in flight"""

    def __init__(self, exc, site=None):
        try:
            text = repr(exc)
        except Exception:  # the exception carries symbolic values whose repr runs repository code natively
            text = f"{type(exc).__name__}(<symbolic payload>)"
        super().__init__(text)
        self.exc = exc
        self.site = site


class Unsupported(Exception):
    """construct outside the supported subset: the unit is undecided, never a violation"""


class PathEnd(Exception):
    """the current path ends here (cut by an invariant rule or pruned)"""

    def __init__(self, reason=""):
        super().__init__(reason)
        self.reason = reason


class _Return(Exception):
    def __init__(self, value):
        self.value = value


class _Break(Exception):
    pass


class _Continue(Exception):
    pass


INTERNAL = (_Return, _Break, _Continue, PathEnd, Unsupported)


class IFunc:
    """function object created by interpreting a nested def / lambda"""

    def __init__(self, node, frame, name, is_gen):
        self.node = node
        self.frame = frame
        self.__name__ = name
        self.is_gen = is_gen

    def __repr__(self):
        return f"<IFunc {self.__name__}>"


class IGen:
    """a suspended interpreted generator"""

    def __init__(self, g, name="?"):
        self.g = g
        self.name = name

    def send(self, v):
        return self.g.send(v)

    def __next__(self):
        return self.g.send(None)

    def __iter__(self):
        return self

    def close(self):
        self.g.close()

    def throw(self, *a):
        return self.g.throw(*a)


class SymMethod:
    """bound method of a symbolic scalar (modelled in models.py)"""

    def __init__(self, obj, name):
        self.obj = obj
        self.name = name


class Frame:
    __slots__ = ("locals", "globals", "cells", "parent", "defcls", "qualname", "filename", "self_obj", "loop_ord", "lineoff")

    def __init__(self, locals_, globals_, cells=None, parent=None, defcls=None, qualname="?", filename="?", lineoff=0):
        self.locals = locals_
        self.globals = globals_
        self.cells = cells or {}
        self.parent = parent
        self.defcls = defcls
        self.qualname = qualname
        self.filename = filename
        self.loop_ord = 0
        self.lineoff = lineoff


_SRC_CACHE = {}


def function_ast(fn):
    """(FunctionDef|Lambda node, filename, first line) of a real function, from its source"""
    code = fn.__code__
    if code in _SRC_CACHE:
        return _SRC_CACHE[code]
    try:
        src, first = inspect.getsourcelines(fn)
    except (OSError, TypeError) as e:
        raise Unsupported(f"no source for {fn!r}: {e}")
    text = textwrap.dedent("".join(src))
    try:
        tree = ast.parse(text)
    except SyntaxError:
        # e.g. a lambda in the middle of an expression: wrap
        tree = ast.parse("(" + text.strip().rstrip(",") + ")")
    node = None
    if fn.__name__ == "<lambda>":
        for n in ast.walk(tree):
            if isinstance(n, ast.Lambda):
                node = n
                break
    else:
        for n in ast.walk(tree):
            if isinstance(n, (ast.FunctionDef,)) and n.name == fn.__name__:
                node = n
                break
    if node is None:
        raise Unsupported(f"cannot locate def of {fn!r}")
    loops = [n for n in ast.walk(node) if isinstance(n, (ast.For, ast.While))]
    loops.sort(key=lambda n: (n.lineno, n.col_offset))
    kcount = {}
    for i, n in enumerate(loops):
        n._pyvc_ord = i
        kind = "for" if isinstance(n, ast.For) else "while"
        n._pyvc_kord = (kind, kcount.get(kind, 0))
        kcount[kind] = kcount.get(kind, 0) + 1
    res = (node, code.co_filename, first - 1)
    _SRC_CACHE[code] = res
    return res


def _contains_yield(node):
    for n in ast.walk(node):
        if isinstance(n, (ast.Yield, ast.YieldFrom)):
            return True
    return False


def is_repo_function(fn):
    return isinstance(fn, types.FunctionType) and (fn.__module__ or "").startswith("tpmstream") and fn.__code__.co_filename != "<string>"


def is_generated_dataclass_method(fn):
    return isinstance(fn, types.FunctionType) and fn.__code__.co_filename == "<string>"


BINOPS = {
    ast.Add: operator.add,
    ast.Sub: operator.sub,
    ast.Mult: operator.mul,
    ast.Div: operator.truediv,
    ast.FloorDiv: operator.floordiv,
    ast.Mod: operator.mod,
    ast.Pow: operator.pow,
    ast.LShift: operator.lshift,
    ast.RShift: operator.rshift,
    ast.BitAnd: operator.and_,
    ast.BitOr: operator.or_,
    ast.BitXor: operator.xor,
}
BINOP_NAMES = {
    ast.Add: "add", ast.Sub: "sub", ast.Mult: "mul", ast.Div: "truediv", ast.FloorDiv: "floordiv",
    ast.Mod: "mod", ast.Pow: "pow", ast.LShift: "lshift", ast.RShift: "rshift", ast.BitAnd: "and",
    ast.BitOr: "or", ast.BitXor: "xor",
}
CMPOPS = {
    ast.Eq: ("eq", operator.eq), ast.NotEq: ("ne", operator.ne), ast.Lt: ("lt", operator.lt),
    ast.LtE: ("le", operator.le), ast.Gt: ("gt", operator.gt), ast.GtE: ("ge", operator.ge),
}
REFLECT = {"eq": "eq", "ne": "ne", "lt": "gt", "le": "ge", "gt": "lt", "ge": "le"}


def run_sync(gen):
    """run an interpreter generator that must not yield (no interpreted `yield` inside)"""
    try:
        next(gen)
    except StopIteration as e:
        return e.value
    raise Unsupported("interpreted yield in a synchronous context")


class Interp:
    def __init__(self, ctx, stubs=None, loop_specs=None, inline_filter=None, force=()):
        self.ctx = ctx
        self.force = set(force)  # repo functions interpreted even with concrete arguments (their callees are stubbed)
        self.force_all = False  # conformance mode: interpret every repo function, also with concrete arguments
        self.stubs = stubs or {}
        self.loop_specs = loop_specs or {}
        from . import models

        self.models = models
        self.call_depth = 0
        self.steps = 0
        self.max_steps = 2_000_000
        self.native_ok = inline_filter

    # ------------------------------------------------------------------ utilities
    def site(self, node, frame):
        return f"{frame.filename.split('/src/')[-1]}:{getattr(node, 'lineno', 0) + frame.lineoff}:{frame.qualname}"

    def raise_(self, exc, node=None, frame=None):
        raise PyExc(exc, self.site(node, frame) if node is not None else None)

    def truth(self, v):
        if isinstance(v, bool):
            return v
        if isinstance(v, SBool):
            return self.ctx.decide(v.t)
        if isinstance(v, SInt):
            return self.ctx.decide(v.t != 0)
        if isinstance(v, SStr):
            if any(isinstance(p, str) and p for p in v.parts) or any(isinstance(p, (S.Bits, S.BitChar, S.FmtInt)) for p in v.parts):
                return True
            raise Unsupported("truth of opaque string")
        if isinstance(v, SBytes):
            return len(v.items) > 0
        if isinstance(v, IGen):
            return True
        if not isinstance(v, (type, types.ModuleType, types.FunctionType)) and self.tainted(v):
            # truth protocol of an object carrying symbols: __bool__, then __len__ (interpreted when defined in the repo)
            for nm in ("__bool__", "__len__"):
                f = _type_lookup(v, nm)
                if f is not None and is_repo_function(f):
                    r = run_sync(self.call(f, (v,), {}))
                    if nm == "__len__":
                        return self.truth(r != 0 if isinstance(r, int) else lift_bool(term(r) != 0))
                    return self.truth(r)
        try:
            return bool(v)
        except S.NativeUseOfSymbol as e:
            raise Unsupported(f"truth: {e}")
        except INTERNAL:
            raise
        except Exception as e:
            raise PyExc(e, "truth value")

    def tainted(self, obj):
        if isinstance(obj, (IGen, IFunc, SymMethod)):
            return True
        return S.deep_symbolic(obj)

    # ------------------------------------------------------------------ function bodies
    def make_frame_for(self, fn, args, kwargs, defcls=None):
        node, filename, lineoff = function_ast(fn)
        cells = {}
        if fn.__closure__:
            for name, cell in zip(fn.__code__.co_freevars, fn.__closure__):
                cells[name] = cell
        frame = Frame({}, fn.__globals__, cells, None, defcls, fn.__qualname__, filename, lineoff)
        defaults = fn.__defaults__ or ()
        kwdefaults = fn.__kwdefaults__ or {}
        self.bind_args(node.args, frame, args, kwargs, defaults, kwdefaults, fn.__qualname__)
        return node, frame

    def bind_args(self, a, frame, args, kwargs, defaults, kwdefaults, fname):
        pos = [x.arg for x in a.posonlyargs] + [x.arg for x in a.args]
        args = list(args)
        kwargs = dict(kwargs)
        loc = frame.locals
        n = len(pos)
        if len(args) > n and a.vararg is None:
            self.raise_(TypeError(f"{fname}() takes {n} positional arguments but {len(args)} were given"))
        for i, name in enumerate(pos):
            if i < len(args):
                if name in kwargs:
                    self.raise_(TypeError(f"{fname}() got multiple values for argument '{name}'"))
                loc[name] = args[i]
            elif name in kwargs:
                loc[name] = kwargs.pop(name)
            else:
                di = i - (n - len(defaults))
                if di >= 0:
                    loc[name] = defaults[di]
                else:
                    self.raise_(TypeError(f"{fname}() missing required argument '{name}'"))
        if a.vararg is not None:
            loc[a.vararg.arg] = tuple(args[n:])
        for x in a.kwonlyargs:
            if x.arg in kwargs:
                loc[x.arg] = kwargs.pop(x.arg)
            elif x.arg in kwdefaults:
                loc[x.arg] = kwdefaults[x.arg]
            else:
                self.raise_(TypeError(f"{fname}() missing keyword-only argument '{x.arg}'"))
        if a.kwarg is not None:
            loc[a.kwarg.arg] = kwargs
        elif kwargs:
            self.raise_(TypeError(f"{fname}() got an unexpected keyword argument '{next(iter(kwargs))}'"))

    def run_body(self, node, frame, is_gen):
        """generator executing a function body; returns the function's return value"""
        try:
            if isinstance(node, ast.Lambda):
                v = yield from self.eval(node.body, frame)
                return v
            yield from self.exec_block(node.body, frame)
        except _Return as r:
            return r.value
        except PyExc as e:
            if is_gen and isinstance(e.exc, StopIteration):
                # PEP 479
                raise PyExc(RuntimeError("generator raised StopIteration"), e.site)
            raise
        return None

    def call_repo_function(self, fn, args, kwargs, defcls=None):
        node, frame = self.make_frame_for(fn, args, kwargs, defcls)
        is_gen = bool(fn.__code__.co_flags & inspect.CO_GENERATOR)
        if is_gen:
            return IGen(self.run_body(node, frame, True), fn.__qualname__)
        self.call_depth += 1
        if self.call_depth > 200:
            raise Unsupported("interpreter recursion too deep")
        try:
            return (yield from self.run_body(node, frame, False))
        finally:
            self.call_depth -= 1

    def call_ifunc(self, f, args, kwargs):
        node = f.node
        frame = Frame({}, f.frame.globals, f.frame.cells, f.frame, f.frame.defcls, f.frame.qualname + "." + f.__name__, f.frame.filename, f.frame.lineoff)
        defaults = getattr(f, "defaults", ())
        kwdefaults = getattr(f, "kwdefaults", {})
        self.bind_args(node.args, frame, args, kwargs, defaults, kwdefaults, f.__name__)
        if f.is_gen:
            return IGen(self.run_body(node, frame, True), f.__name__)
        return (yield from self.run_body(node, frame, False))

    # ------------------------------------------------------------------ calls
    def call(self, fn, args, kwargs, node=None, frame=None):
        """generator: call any callable with possibly symbolic arguments"""
        self.steps += 1
        if self.steps > self.max_steps:
            raise Unsupported("step budget exhausted")
        # methods of an interpreted generator object (send / __next__ / close): drive it directly
        if isinstance(fn, types.MethodType) and isinstance(fn.__self__, IGen):
            try:
                return fn(*args, **kwargs)
            except StopIteration as e:
                raise PyExc(StopIteration(e.value))
        # unwrap bound methods
        if isinstance(fn, types.MethodType):
            return (yield from self.call(fn.__func__, (fn.__self__,) + tuple(args), kwargs, node, frame))
        if isinstance(fn, _BoundSuper):
            if is_repo_function(fn.fn):
                return (yield from self.call_repo_function(fn.fn, (fn.obj,) + tuple(args), kwargs, fn.defcls))
            return self.native(fn.fn, (fn.obj,) + tuple(args), kwargs)
        if isinstance(fn, SymMethod):
            return (yield from self.models.sym_method(self, fn.obj, fn.name, args, kwargs))
        if isinstance(fn, IFunc):
            return (yield from self.call_ifunc(fn, args, kwargs))
        stub = self.stubs.get(fn) if _hashable(fn) else None
        if stub is None and isinstance(fn, types.FunctionType):
            stub = self.stubs.get(fn.__module__ + ":" + fn.__qualname__)
        if stub is not None:
            return (yield from stub(self, args, kwargs))
        if isinstance(fn, super):
            raise Unsupported("call of super object")
        # builtin models take precedence when symbols are involved
        m = self.models.lookup(fn)
        symbolic_args = any(self.tainted(a) for a in args) or any(self.tainted(a) for a in kwargs.values())
        if m is not None and (symbolic_args or self.models.always(fn)):
            return (yield from m(self, args, kwargs))
        if isinstance(fn, types.FunctionType):
            if is_repo_function(fn) and fn.__module__ + ":" + fn.__qualname__ in NATIVE_SAFE:
                return self.native(fn, args, kwargs)
            if is_repo_function(fn) and not is_generated_dataclass_method(fn):
                is_gen = bool(fn.__code__.co_flags & inspect.CO_GENERATOR)
                if is_gen or symbolic_args or fn in self.force or self.force_all:
                    return (yield from self.call_repo_function(fn, args, kwargs, self._defcls_of(fn, args)))
                return self.native(fn, args, kwargs)
            if is_generated_dataclass_method(fn):
                if fn.__name__ == "__eq__" and symbolic_args:
                    return (yield from self.models.dataclass_eq(self, args[0], args[1]))
                return self.native(fn, args, kwargs)  # generated __init__/__repr__ do not inspect values
            if not symbolic_args:
                return self.native(fn, args, kwargs)
            raise Unsupported(f"call of non-repo function {fn.__module__}.{fn.__qualname__} with symbolic arguments")
        if isinstance(fn, type):
            return (yield from self.instantiate(fn, args, kwargs))
        if not symbolic_args:
            return self.native(fn, args, kwargs)
        if self.models.opaque_safe(fn):
            return self.native(fn, args, kwargs)
        if isinstance(fn, (types.WrapperDescriptorType, types.MethodDescriptorType)) and getattr(fn, "__objclass__", None) in (set, frozenset) \
                and all(isinstance(a, (set, frozenset)) and all(type(e).__eq__ is object.__eq__ and type(e).__hash__ is object.__hash__ for e in a) for a in args):
            # set algebra over objects with identity hashing and identity equality looks at addresses only
            return self.native(fn, args, kwargs)
        if isinstance(fn, (types.BuiltinMethodType, types.MethodWrapperType)) and getattr(fn, "__name__", "") in self._MUTATORS:
            slf = getattr(fn, "__self__", None)
            if slf is not None and not isinstance(slf, type):
                self.note_write(slf, f"{type(slf).__name__}.{fn.__name__}")
        if isinstance(fn, types.BuiltinMethodType) and isinstance(getattr(fn, "__self__", None), list) and fn.__name__ == "remove" and len(args) == 1 and not kwargs:
            # list.remove(x) over elements whose class defines __eq__: the first element that is x or equals x
            lst, x = fn.__self__, args[0]
            for i, e in enumerate(list.__iter__(lst)):
                same = e is x
                if not same:
                    r = yield from self.rich_compare("eq", e, x)
                    same = self.truth(r)
                if same:
                    list.__delitem__(lst, i)
                    return None
            raise PyExc(ValueError("list.remove(x): x not in list"))
        if type(fn).__name__ == "_lru_cache_wrapper" and is_repo_function(getattr(fn, "__wrapped__", None)):
            # a memo filled with decoded values: its entries outlive the decode and are found again through == / hash of the
            # value (which the typed integers define by number, across types) - shared state written by the decode
            self.ctx.frame_writes.append(f"lru_cache of {fn.__wrapped__.__module__}.{fn.__wrapped__.__qualname__} is filled with a decoded value (entries outlive the decode; keys compare by number across types)")
            return (yield from self.call(fn.__wrapped__, args, kwargs, node, frame))
        # callable instance with repo __call__?
        call = getattr(type(fn), "__call__", None)
        if is_repo_function(call):
            return (yield from self.call_repo_function(call, (fn,) + tuple(args), kwargs))
        raise Unsupported(f"call of {fn!r} with symbolic arguments")

    def _defcls_of(self, fn, args):
        # class in whose __dict__ fn lives (for zero-argument super())
        if not args:
            return None
        obj = args[0]
        klass = obj if isinstance(obj, type) else type(obj)
        for k in getattr(klass, "__mro__", ()):
            for v in k.__dict__.values():
                f = v.__func__ if isinstance(v, (classmethod, staticmethod)) else v
                if f is fn:
                    return k
        return None

    _MUTATORS = {"append", "extend", "insert", "pop", "clear", "remove", "reverse", "sort", "setdefault", "update", "popitem", "add", "discard", "__setitem__", "__delitem__", "__setattr__"}

    def _note_memo_result(self, fn, r):
        if type(fn).__name__ == "_lru_cache_wrapper" and isinstance(r, (dict, list, set, bytearray)):
            # what a memoised function returns is the cached object itself: it outlives the call
            w = getattr(fn, "__wrapped__", fn)
            self.ctx.ghost.setdefault("memo_results", {})[id(r)] = (r, f"the memoised result of {getattr(w, '__module__', '?')}.{getattr(w, '__qualname__', w)}")
        return r

    def native(self, fn, args, kwargs):
        nm = getattr(fn, "__name__", "")
        if nm in self._MUTATORS:
            slf = getattr(fn, "__self__", None)
            if slf is not None and not isinstance(slf, type):
                self.note_write(slf, f"{type(slf).__name__}.{nm}")
            elif args and isinstance(fn, (types.MethodDescriptorType, types.WrapperDescriptorType)):
                self.note_write(args[0], f"{type(args[0]).__name__}.{nm}")
        try:
            return self._note_memo_result(fn, fn(*args, **kwargs))
        except INTERNAL:
            raise
        except PyExc:
            raise
        except S.NativeUseOfSymbol as e:
            raise Unsupported(f"native call {getattr(fn, '__qualname__', fn)!r}: {e}")
        except Exception as e:  # the real code raised: becomes an interpreted exception
            raise PyExc(e, f"native:{getattr(fn, '__qualname__', repr(fn))}")

    def note_set_order(self, x):
        """the order of a set of objects hashed by identity follows their addresses, i.e. the allocation history of the process:
        whatever turns that order into a sequence is not a function of the input (C12)"""
        if isinstance(x, (set, frozenset)) and len(x) > 1 and any(type(e).__hash__ is object.__hash__ for e in x):
            self.ctx.frame_writes.append("a set of objects hashed by identity is turned into a sequence: the order depends on memory addresses, not on the input")

    def instantiate(self, cls, args, kwargs):
        if isinstance(cls, type) and issubclass(cls, (list, tuple)):
            for a in args[:1]:
                self.note_set_order(a)
        symbolic_args = any(self.tainted(a) for a in args) or any(self.tainted(a) for a in kwargs.values())
        if not symbolic_args and not self.models.force_interpret_class(cls):
            return self.native(cls, args, kwargs)
        m = self.models.lookup(cls)
        if m is not None:
            return (yield from m(self, args, kwargs))
        if issubclass(cls, BaseException):
            # real exception object; repo __init__ interpreted, builtin base natively
            obj = cls.__new__(cls)
        else:
            new = cls.__new__
            if new is object.__new__:
                obj = object.__new__(cls)
            elif is_repo_function(getattr(new, "__func__", new)):
                f = getattr(new, "__func__", new)
                if f.__module__ + ":" + f.__qualname__ in NATIVE_SAFE:
                    return self.native(cls, args, kwargs)
                raise Unsupported(f"custom __new__ of {cls.__name__} with symbolic arguments")
            else:
                try:
                    obj = cls.__new__(cls)
                except TypeError:
                    raise Unsupported(f"__new__ of {cls.__name__}")
        init = None
        defcls = None
        for k in cls.__mro__:
            if "__init__" in k.__dict__:
                init = k.__dict__["__init__"]
                defcls = k
                break
        if init is None or init is object.__init__:
            return obj
        if is_repo_function(init):
            yield from self.call_repo_function(init, (obj,) + tuple(args), kwargs, defcls)
        elif is_generated_dataclass_method(init):
            self.native(init, (obj,) + tuple(args), kwargs)
        elif isinstance(obj, BaseException):
            try:
                BaseException.__init__(obj, *args)
            except Exception as e:
                raise PyExc(e)
        else:
            self.native(init, (obj,) + tuple(args), kwargs)
        return obj

    # ------------------------------------------------------------------ attributes
    def getattr_(self, obj, name, node=None, frame=None):
        if isinstance(obj, Sym):
            return SymMethod(obj, name)
        if isinstance(obj, (IGen, IFunc)):
            return getattr(obj, name)
        if isinstance(obj, _Super):
            o = obj.obj
            mro = (o if isinstance(o, type) else type(o)).__mro__
            seen = False
            for k in mro:
                if seen and name in k.__dict__:
                    raw = k.__dict__[name]
                    if isinstance(raw, types.FunctionType):
                        return _BoundSuper(raw, o, k)
                    if isinstance(raw, classmethod):
                        return types.MethodType(raw.__func__, o if isinstance(o, type) else type(o))
                    if isinstance(raw, staticmethod):
                        if name == "__new__":
                            return raw.__func__
                        return raw.__func__
                    g = getattr(type(raw), "__get__", None)
                    if g is not None:
                        return g(raw, o, type(o))
                    return raw
                if k is obj.cls:
                    seen = True
            self.raise_(AttributeError(f"'super' object has no attribute '{name}'"), node, frame)
        if isinstance(obj, (type, types.ModuleType, types.FunctionType)) or not self.tainted(obj):
            try:
                return getattr(obj, name)
            except AttributeError as e:
                self.raise_(e, node, frame)
            except S.NativeUseOfSymbol as e:
                raise Unsupported(f"getattr {name}: {e}")
        # instance carrying symbols: do the lookup by hand so that descriptors are interpreted
        cls = type(obj)
        raw = _MISSING
        for k in cls.__mro__:
            if name in k.__dict__:
                raw = k.__dict__[name]
                break
        d = getattr(obj, "__dict__", {})
        if raw is not _MISSING:
            rt = type(raw)
            is_data = hasattr(rt, "__set__") or hasattr(rt, "__delete__")
            if is_data or name not in d:
                if isinstance(raw, types.FunctionType):
                    return types.MethodType(raw, obj)
                if isinstance(raw, classmethod):
                    return types.MethodType(raw.__func__, cls)
                if isinstance(raw, staticmethod):
                    return raw.__func__
                if isinstance(raw, property):
                    if is_repo_function(raw.fget):
                        return run_sync(self.call_repo_function(raw.fget, (obj,), {}))
                    return self.native(raw.fget, (obj,), {})
                g = getattr(rt, "__get__", None)
                if g is not None:
                    if is_repo_function(g):
                        return run_sync(self.call_repo_function(g, (raw, obj, cls), {}))
                    if isinstance(raw, (types.MemberDescriptorType, types.GetSetDescriptorType, types.WrapperDescriptorType, types.MethodDescriptorType)):
                        return getattr(obj, name)
                    return self.native(g, (raw, obj, cls), {})
                if name not in d:
                    return raw
        if name in d:
            return d[name]
        try:
            return getattr(obj, name)
        except AttributeError as e:
            self.raise_(e, node, frame)

    def note_write(self, obj, what=""):
        """frame condition: a write to an object that outlives the call (module global, class attribute, memoised result)"""
        from . import frame as F

        o = F.owner_of(obj)
        if o is None:
            d = self.ctx.ghost.get("memo_results", {}).get(id(obj))
            if d is not None and d[0] is obj:
                o = d[1]
        if o is not None:
            self.ctx.frame_writes.append(f"{what} -> {o}")

    def note_is_shared(self, obj):
        """is obj state that outlives the call (function default, module global, class attribute)?"""
        from . import frame as F

        if F.owner_of(obj) is not None:
            return True
        return id(obj) in F.default_arg_ids()

    def setattr_(self, obj, name, value):
        self.note_write(obj, f"setattr .{name}")
        try:
            setattr(obj, name, value)
        except Exception as e:
            raise PyExc(e)

    # ------------------------------------------------------------------ name lookup
    def load_name(self, name, frame, node):
        f = frame
        while f is not None:
            if name in f.locals:
                return f.locals[name]
            if f.parent is None and name in f.cells:
                try:
                    return f.cells[name].cell_contents
                except ValueError:
                    self.raise_(NameError(f"free variable '{name}' referenced before assignment"), node, frame)
            f = f.parent
        # closure cells of the outermost real function
        f = frame
        while f.parent is not None:
            f = f.parent
        if name in f.cells:
            try:
                return f.cells[name].cell_contents
            except ValueError:
                self.raise_(NameError(f"free variable '{name}' referenced before assignment"), node, frame)
        if name in frame.globals:
            return frame.globals[name]
        if hasattr(builtins, name):
            return getattr(builtins, name)
        if name == "__class__" and frame.defcls is not None:
            return frame.defcls
        self.raise_(NameError(f"name '{name}' is not defined"), node, frame)

    # ------------------------------------------------------------------ statements
    def exec_block(self, stmts, frame):
        for st in stmts:
            yield from self.exec(st, frame)

    def exec(self, node, frame):
        self.steps += 1
        if self.steps > self.max_steps:
            raise Unsupported("step budget exhausted")
        m = getattr(self, "x_" + type(node).__name__, None)
        if m is None:
            raise Unsupported(f"statement {type(node).__name__} at {self.site(node, frame)}")
        yield from m(node, frame)

    def x_Expr(self, node, frame):
        if isinstance(node.value, ast.Constant):
            return  # docstring
        yield from self.eval(node.value, frame)

    def x_Pass(self, node, frame):
        return
        yield

    def x_Assign(self, node, frame):
        v = yield from self.eval(node.value, frame)
        for t in node.targets:
            yield from self.assign(t, v, frame)

    def x_AnnAssign(self, node, frame):
        if node.value is not None:
            v = yield from self.eval(node.value, frame)
            yield from self.assign(node.target, v, frame)

    def x_AugAssign(self, node, frame):
        t = node.target
        if isinstance(t, ast.Name):
            cur = self.load_name(t.id, frame, t)
            rhs = yield from self.eval(node.value, frame)
            v = yield from self.binop(type(node.op), cur, rhs, node, frame, inplace=True)
            frame.locals[t.id] = v
        elif isinstance(t, ast.Attribute):
            obj = yield from self.eval(t.value, frame)
            cur = self.getattr_(obj, t.attr, t, frame)
            rhs = yield from self.eval(node.value, frame)
            v = yield from self.binop(type(node.op), cur, rhs, node, frame, inplace=True)
            self.setattr_(obj, t.attr, v)
        elif isinstance(t, ast.Subscript):
            obj = yield from self.eval(t.value, frame)
            key = yield from self.eval_slice(t.slice, frame)
            cur = yield from self.subscript(obj, key, t, frame)
            rhs = yield from self.eval(node.value, frame)
            v = yield from self.binop(type(node.op), cur, rhs, node, frame, inplace=True)
            yield from self.store_subscript(obj, key, v, t, frame)
        else:
            raise Unsupported("augmented assignment target")

    def assign(self, target, v, frame):
        if isinstance(target, ast.Name):
            frame.locals[target.id] = v
        elif isinstance(target, ast.Attribute):
            obj = yield from self.eval(target.value, frame)
            self.setattr_(obj, target.attr, v)
        elif isinstance(target, ast.Subscript):
            obj = yield from self.eval(target.value, frame)
            key = yield from self.eval_slice(target.slice, frame)
            yield from self.store_subscript(obj, key, v, target, frame)
        elif isinstance(target, (ast.Tuple, ast.List)):
            items = yield from self.iterate_all(v, target, frame)
            if any(isinstance(e, ast.Starred) for e in target.elts):
                raise Unsupported("starred assignment")
            if len(items) != len(target.elts):
                self.raise_(ValueError(f"not enough/too many values to unpack (expected {len(target.elts)}, got {len(items)})"), target, frame)
            for e, x in zip(target.elts, items):
                yield from self.assign(e, x, frame)
        else:
            raise Unsupported(f"assignment target {type(target).__name__}")

    def store_subscript(self, obj, key, v, node, frame):
        if isinstance(obj, S.SByteBuf):
            # buffer of symbolic length: the store must be in range and a byte; contents are not tracked
            if obj.frozen:
                self.raise_(TypeError("'bytes' object does not support item assignment"), node, frame)
            if isinstance(key, (S.SInt, int)) and not isinstance(key, bool):
                k = S.term(key)
                if not self.ctx.decide(z3.And(k >= -obj.length, k < obj.length), "bytearray-index"):
                    self.raise_(IndexError("bytearray index out of range"), node, frame)
                if isinstance(v, (S.SInt, int)) and not isinstance(v, bool):
                    if not self.ctx.decide(z3.And(S.term(v) >= 0, S.term(v) <= 255), "bytearray-value"):
                        self.raise_(ValueError("byte must be in range(0, 256)"), node, frame)
                    return
                if v is None:
                    self.raise_(TypeError("'NoneType' object cannot be interpreted as an integer"), node, frame)
            raise Unsupported("store into a symbolic-length buffer with this key/value")
        if isinstance(key, Sym):
            raise Unsupported("store with symbolic key")
        if self.tainted(key):
            raise Unsupported("store with tainted key")
        self.note_write(obj, f"store [{key!r}]")
        try:
            obj[key] = v
        except Exception as e:
            raise PyExc(e, self.site(node, frame))
        return
        yield

    def x_Delete(self, node, frame):
        for t in node.targets:
            if isinstance(t, ast.Name):
                frame.locals.pop(t.id, None)
            else:
                raise Unsupported("del of non-name")
        return
        yield

    def x_Return(self, node, frame):
        v = None
        if node.value is not None:
            v = yield from self.eval(node.value, frame)
        raise _Return(v)

    def x_If(self, node, frame):
        c = yield from self.eval(node.test, frame)
        if self.truth(c):
            yield from self.exec_block(node.body, frame)
        else:
            yield from self.exec_block(node.orelse, frame)

    def x_Assert(self, node, frame):
        if any(isinstance(n, (ast.Yield, ast.YieldFrom, ast.Await, ast.NamedExpr)) for n in ast.walk(node.test)):
            # assert statements are not compiled under `python -O`: one that yields / assigns takes its effect with it
            self.ctx.record("SAFETY/assert-has-no-effect-of-its-own", False, "safety", self.site(node, frame),
                            detail="the asserted expression yields or assigns: under python -O the statement, and with it the event / value, disappears")
        c = yield from self.eval(node.test, frame)
        self.ctx.count_safety("assert", self.site(node, frame))
        if not self.truth(c):
            self.raise_(AssertionError("assert"), node, frame)

    def x_Raise(self, node, frame):
        if node.exc is None:
            cur = frame.locals.get("__handling__")
            if cur is None:
                self.raise_(RuntimeError("No active exception to reraise"), node, frame)
            raise PyExc(cur, self.site(node, frame))
        e = yield from self.eval(node.exc, frame)
        if isinstance(e, type) and issubclass(e, BaseException):
            e = yield from self.instantiate(e, (), {})
        if not isinstance(e, BaseException):
            self.raise_(TypeError("exceptions must derive from BaseException"), node, frame)
        if node.cause is not None:
            c = yield from self.eval(node.cause, frame)
            try:
                e.__cause__ = c
            except Exception:
                pass
        raise PyExc(e, self.site(node, frame))

    def x_Try(self, node, frame):
        try:
            try:
                yield from self.exec_block(node.body, frame)
            except PyExc as pe:
                handled = False
                for h in node.handlers:
                    if h.type is None:
                        match = True
                    else:
                        t = yield from self.eval(h.type, frame)
                        match = isinstance(pe.exc, t)
                    if match:
                        handled = True
                        if h.name:
                            frame.locals[h.name] = pe.exc
                        prev = frame.locals.get("__handling__")
                        frame.locals["__handling__"] = pe.exc
                        try:
                            yield from self.exec_block(h.body, frame)
                        finally:
                            frame.locals["__handling__"] = prev
                            if h.name:
                                frame.locals.pop(h.name, None)
                        break
                if not handled:
                    raise
            else:
                yield from self.exec_block(node.orelse, frame)
        finally:
            if node.finalbody:
                # NB: a `finally` body that yields is outside the subset
                for st in node.finalbody:
                    run_sync(self.exec(st, frame))

    def x_Break(self, node, frame):
        raise _Break()
        yield

    def x_Continue(self, node, frame):
        raise _Continue()
        yield

    def x_FunctionDef(self, node, frame):
        f = IFunc(node, frame, node.name, _contains_yield(node))
        f.defaults = []
        for d in node.args.defaults:
            f.defaults.append((yield from self.eval(d, frame)))
        f.defaults = tuple(f.defaults)
        f.kwdefaults = {}
        for a, d in zip(node.args.kwonlyargs, node.args.kw_defaults):
            if d is not None:
                f.kwdefaults[a.arg] = yield from self.eval(d, frame)
        if node.decorator_list:
            raise Unsupported("decorated nested function")
        frame.locals[node.name] = f

    def x_While(self, node, frame):
        spec = _find_loop_spec(self.loop_specs, node, frame)
        if spec is not None:
            _check_loop_kind(spec, "while", frame)
            yield from spec.run(self, node, frame)
            return
        while True:
            c = yield from self.eval(node.test, frame)
            if not self.truth(c):
                yield from self.exec_block(node.orelse, frame)
                return
            try:
                yield from self.exec_block(node.body, frame)
            except _Break:
                return
            except _Continue:
                continue

    def x_For(self, node, frame):
        spec = _find_loop_spec(self.loop_specs, node, frame)
        if spec is not None:
            _check_loop_kind(spec, "for", frame)
            yield from spec.run(self, node, frame)
            return
        it = yield from self.eval(node.iter, frame)
        iterator = yield from self.get_iter(it, node, frame)
        while True:
            try:
                x = yield from self.next_(iterator, node, frame)
            except PyExc as pe:
                if isinstance(pe.exc, StopIteration):
                    break
                raise
            yield from self.assign(node.target, x, frame)
            try:
                yield from self.exec_block(node.body, frame)
            except _Break:
                return
            except _Continue:
                continue
        yield from self.exec_block(node.orelse, frame)

    # ------------------------------------------------------------------ iteration
    def get_iter(self, it, node=None, frame=None):
        """returns an iterator object understood by next_()"""
        if isinstance(it, IGen):
            return it
        if isinstance(it, SStr):
            ch = it.chars()
            if ch is None:
                raise Unsupported("iteration over a string of unknown shape")
            return iter([c if isinstance(c, str) else SStr([c]) for c in ch])
        if isinstance(it, SBytes):
            return iter([x if isinstance(x, int) else SInt(x) for x in it.items])
        if isinstance(it, Sym):
            self.raise_(TypeError(f"'{self.models.pytype(it).__name__}' object is not iterable"), node, frame)
        m = self.models.iter_model(self, it)
        if m is not None:
            return m
        self.note_set_order(it)
        # class with a repo metaclass __iter__, or instance with repo __iter__
        meth = _type_lookup(it, "__iter__")
        if meth is not None and is_repo_function(meth):
            r = yield from self.call_repo_function(meth, (it,), {}, None)
            return (yield from self.get_iter(r, node, frame)) if not isinstance(r, IGen) else r
        try:
            return iter(it)
        except TypeError as e:
            self.raise_(e, node, frame)

    def next_(self, iterator, node=None, frame=None):
        """generator: next element or PyExc(StopIteration)"""
        if isinstance(iterator, IGen):
            try:
                v = iterator.g.send(None)
            except StopIteration as e:
                raise PyExc(StopIteration(e.value))
            # an interpreted generator used as an iterator: what it yields is the element
            return v
        m = getattr(iterator, "_pyvc_next", None)
        if m is not None:
            return (yield from m(self))
        try:
            return next(iterator)
        except StopIteration as e:
            raise PyExc(StopIteration(e.value))
        except INTERNAL:
            raise
        except PyExc:
            raise
        except S.NativeUseOfSymbol as e:
            raise Unsupported(f"native iterator: {e}")
        except Exception as e:
            raise PyExc(e)

    def iterate_all(self, v, node=None, frame=None):
        if isinstance(v, (tuple, list)) and not isinstance(v, IGen):
            return list(v)
        it = yield from self.get_iter(v, node, frame)
        out = []
        while True:
            try:
                out.append((yield from self.next_(it, node, frame)))
            except PyExc as pe:
                if isinstance(pe.exc, StopIteration):
                    return out
                raise

    # ------------------------------------------------------------------ expressions
    def eval(self, node, frame):
        m = getattr(self, "e_" + type(node).__name__, None)
        if m is None:
            raise Unsupported(f"expression {type(node).__name__} at {self.site(node, frame)}")
        return (yield from m(node, frame))

    def e_Constant(self, node, frame):
        return node.value
        yield

    def e_Name(self, node, frame):
        return self.load_name(node.id, frame, node)
        yield

    def e_Attribute(self, node, frame):
        obj = yield from self.eval(node.value, frame)
        return self.getattr_(obj, node.attr, node, frame)

    def e_Tuple(self, node, frame):
        out = []
        for e in node.elts:
            if isinstance(e, ast.Starred):
                v = yield from self.eval(e.value, frame)
                out.extend((yield from self.iterate_all(v, e, frame)))
            else:
                out.append((yield from self.eval(e, frame)))
        return tuple(out)

    def e_List(self, node, frame):
        t = yield from self.e_Tuple(node, frame)
        return list(t)

    def e_Set(self, node, frame):
        t = yield from self.e_Tuple(node, frame)
        if any(isinstance(x, Sym) for x in t):
            raise Unsupported("set of symbols")
        return set(t)

    def e_Dict(self, node, frame):
        d = {}
        for k, v in zip(node.keys, node.values):
            if k is None:
                m = yield from self.eval(v, frame)
                d.update(m)
            else:
                kk = yield from self.eval(k, frame)
                if isinstance(kk, Sym):
                    raise Unsupported("dict display with symbolic key")
                d[kk] = yield from self.eval(v, frame)
        return d

    def e_IfExp(self, node, frame):
        c = yield from self.eval(node.test, frame)
        if self.truth(c):
            return (yield from self.eval(node.body, frame))
        return (yield from self.eval(node.orelse, frame))

    def e_BoolOp(self, node, frame):
        is_and = isinstance(node.op, ast.And)
        v = None
        for i, e in enumerate(node.values):
            v = yield from self.eval(e, frame)
            if i == len(node.values) - 1:
                return v
            t = self.truth(v)
            if is_and and not t:
                return v
            if not is_and and t:
                return v
        return v

    def e_UnaryOp(self, node, frame):
        v = yield from self.eval(node.operand, frame)
        if isinstance(node.op, ast.Not):
            if isinstance(v, SBool):
                return lift_bool(z3.Not(v.t))
            return not self.truth(v)
        if isinstance(node.op, ast.USub):
            if isinstance(v, (SInt, SBool)):
                return lift_int(-term(v))
            if self.tainted(v):
                raise Unsupported("unary minus on object")
            return self.native(operator.neg, (v,), {})
        if isinstance(node.op, ast.UAdd):
            if isinstance(v, (SInt, SBool)):
                return lift_int(term(v))
            return self.native(operator.pos, (v,), {})
        if isinstance(node.op, ast.Invert):
            if isinstance(v, (SInt, SBool)):
                return lift_int(-term(v) - 1)
            return self.native(operator.invert, (v,), {})
        raise Unsupported("unary op")

    def e_BinOp(self, node, frame):
        a = yield from self.eval(node.left, frame)
        b = yield from self.eval(node.right, frame)
        return (yield from self.binop(type(node.op), a, b, node, frame))

    def binop(self, op, a, b, node=None, frame=None, inplace=False):
        name = BINOP_NAMES[op]
        if not self.tainted(a) and not self.tainted(b):
            f = BINOPS[op]
            if inplace:
                f = getattr(operator, "i" + f.__name__.rstrip("_"), None) or getattr(operator, "i" + f.__name__)
            return self.native(f, (a, b), {})
        r = self.models.sym_binop(self, name, a, b)
        if r is not NotImplemented:
            return r
        # data model dispatch: a.__op__(b), then b.__rop__(a)
        ma = _type_lookup(a, f"__{name}__") if not isinstance(a, Sym) else None
        mb = _type_lookup(b, f"__r{name}__") if not isinstance(b, Sym) else None
        if type(a) in _BUILTIN_SCALARS and not isinstance(b, Sym) and type(b) not in _BUILTIN_SCALARS:
            ma = None
        if type(b) in _BUILTIN_SCALARS and not isinstance(a, Sym) and type(a) not in _BUILTIN_SCALARS:
            mb = None
        if ma is not None:
            r = yield from self.call(ma, (a, b), {}, node, frame)
            if r is not NotImplemented:
                return r
        if mb is not None:
            r = yield from self.call(mb, (b, a), {}, node, frame)
            if r is not NotImplemented:
                return r
        if isinstance(a, (list, tuple)) and isinstance(b, type(a)) and name == "add":
            return a + b
        if isinstance(a, str) and name == "mod":
            raise Unsupported("%-formatting with symbols")
        self.raise_(TypeError(f"unsupported operand type(s) for {name}: '{self.models.pytype(a).__name__}' and '{self.models.pytype(b).__name__}'"), node, frame)

    def e_Compare(self, node, frame):
        left = yield from self.eval(node.left, frame)
        result = True
        for i, (op, rn) in enumerate(zip(node.ops, node.comparators)):
            right = yield from self.eval(rn, frame)
            r = yield from self.compare(type(op), left, right, node, frame)
            if i == len(node.ops) - 1:
                if result is True:
                    return r
                return self.models.and_(result, r)
            if isinstance(r, SBool):
                # chained comparison: conjunction, evaluate the rest eagerly (no side effects in the subset)
                result = self.models.and_(result, r)
            elif not self.truth(r):
                return r
            left = right
        return result

    def compare(self, op, a, b, node=None, frame=None):
        if op is ast.Is:
            return a is b
        if op is ast.IsNot:
            return a is not b
        if op in (ast.In, ast.NotIn):
            r = yield from self.contains(b, a, node, frame)
            if op is ast.NotIn:
                r = lift_bool(z3.Not(r.t)) if isinstance(r, SBool) else (not self.truth(r))
            return r
        name, f = CMPOPS[op]
        if not self.tainted(a) and not self.tainted(b):
            return self.native(f, (a, b), {})
        return (yield from self.rich_compare(name, a, b, node, frame))

    def rich_compare(self, name, a, b, node=None, frame=None):
        r = self.models.sym_compare(self, name, a, b)
        if r is not NotImplemented:
            return r
        ma = _type_lookup(a, f"__{name}__") if not isinstance(a, Sym) else None
        mb = _type_lookup(b, f"__{REFLECT[name]}__") if not isinstance(b, Sym) else None
        if type(a) in _BUILTIN_SCALARS and not isinstance(b, Sym) and type(b) not in _BUILTIN_SCALARS:
            ma = None  # the builtin slot returns NotImplemented for a foreign object without inspecting it
        if type(b) in _BUILTIN_SCALARS and not isinstance(a, Sym) and type(a) not in _BUILTIN_SCALARS:
            mb = None
        if ma is not None and ma is not getattr(object, f"__{name}__"):
            r = yield from self.call(ma, (a, b), {}, node, frame)
            if r is not NotImplemented:
                return r
        if mb is not None and mb is not getattr(object, f"__{REFLECT[name]}__"):
            r = yield from self.call(mb, (b, a), {}, node, frame)
            if r is not NotImplemented:
                return r
        r = yield from self.models.container_compare(self, name, a, b)
        if r is not NotImplemented:
            return r
        if name == "eq":
            return a is b
        if name == "ne":
            return a is not b
        self.raise_(TypeError(f"'{name}' not supported between instances of '{self.models.pytype(a).__name__}' and '{self.models.pytype(b).__name__}'"), node, frame)

    def contains(self, container, item, node=None, frame=None):
        r = yield from self.models.contains(self, container, item, node, frame)
        return r

    def e_Subscript(self, node, frame):
        obj = yield from self.eval(node.value, frame)
        key = yield from self.eval_slice(node.slice, frame)
        return (yield from self.subscript(obj, key, node, frame))

    def eval_slice(self, s, frame):
        if isinstance(s, ast.Slice):
            lo = (yield from self.eval(s.lower, frame)) if s.lower is not None else None
            hi = (yield from self.eval(s.upper, frame)) if s.upper is not None else None
            st = (yield from self.eval(s.step, frame)) if s.step is not None else None
            if any(isinstance(x, Sym) for x in (lo, hi, st)):
                return ("slice", lo, hi, st)
            return slice(lo, hi, st)
        return (yield from self.eval(s, frame))

    def subscript(self, obj, key, node=None, frame=None):
        return (yield from self.models.subscript(self, obj, key, node, frame))

    def e_Call(self, node, frame):
        # zero-argument super()
        if isinstance(node.func, ast.Name) and node.func.id == "super" and not node.args:
            slf = frame.locals.get(next(iter(frame.locals)), None) if frame.locals else None
            f = frame
            while f.parent is not None and f.defcls is None:
                f = f.parent
            if f.defcls is None:
                raise Unsupported("super() without class context")
            first = next(iter(f.locals.values()))
            return _Super(f.defcls, first)
        fn = yield from self.eval(node.func, frame)
        args = []
        for a in node.args:
            if isinstance(a, ast.Starred):
                v = yield from self.eval(a.value, frame)
                args.extend((yield from self.iterate_all(v, a, frame)))
            else:
                args.append((yield from self.eval(a, frame)))
        kwargs = {}
        for k in node.keywords:
            v = yield from self.eval(k.value, frame)
            if k.arg is None:
                kwargs.update(v)
            else:
                kwargs[k.arg] = v
        return (yield from self.call(fn, args, kwargs, node, frame))

    def e_Lambda(self, node, frame):
        f = IFunc(node, frame, "<lambda>", False)
        ds = []
        for d in node.args.defaults:
            ds.append((yield from self.eval(d, frame)))
        f.defaults = tuple(ds)
        f.kwdefaults = {}
        return f

    def e_JoinedStr(self, node, frame):
        parts = []
        for v in node.values:
            if isinstance(v, ast.Constant):
                parts.append(v.value)
            else:
                parts.append((yield from self.e_FormattedValue(v, frame)))
        return mk_str(parts)

    def e_FormattedValue(self, node, frame):
        v = yield from self.eval(node.value, frame)
        spec = ""
        if node.format_spec is not None:
            spec = yield from self.eval(node.format_spec, frame)
            if not isinstance(spec, str):
                raise Unsupported("symbolic format spec")
        if node.conversion == ord("r"):
            v = yield from self.models.repr_(self, v)
        elif node.conversion == ord("s"):
            v = yield from self.models.str_(self, v)
        return (yield from self.models.format_(self, v, spec))

    def e_Yield(self, node, frame):
        v = None
        if node.value is not None:
            v = yield from self.eval(node.value, frame)
        sent = yield v
        return sent

    def e_YieldFrom(self, node, frame):
        it = yield from self.eval(node.value, frame)
        if isinstance(it, IGen):
            return (yield from it.g)
        if isinstance(it, types.GeneratorType):
            return (yield from _delegate_native(it))
        # any iterable: yield its elements
        iterator = yield from self.get_iter(it, node, frame)
        while True:
            try:
                x = yield from self.next_(iterator, node, frame)
            except PyExc as pe:
                if isinstance(pe.exc, StopIteration):
                    return pe.exc.value
                raise
            yield x

    def _comp(self, generators, frame, body):
        """generic comprehension driver; body(frame) is a generator producing one element"""
        def rec(i, fr):
            if i == len(generators):
                yield (yield from body(fr))
                return
            g = generators[i]
            it = yield from self.eval(g.iter, fr)
            iterator = yield from self.get_iter(it, g, fr)
            while True:
                try:
                    x = yield from self.next_(iterator, g, fr)
                except PyExc as pe:
                    if isinstance(pe.exc, StopIteration):
                        return
                    raise
                yield from self.assign(g.target, x, fr)
                ok = True
                for c in g.ifs:
                    cv = yield from self.eval(c, fr)
                    if not self.truth(cv):
                        ok = False
                        break
                if ok:
                    yield from rec(i + 1, fr)
        return rec

    def _comp_items(self, node, frame, elt_eval):
        """eager comprehension: list of elements"""
        fr = Frame({}, frame.globals, frame.cells, frame, frame.defcls, frame.qualname, frame.filename, frame.lineoff)
        out = []

        def walk(i):
            if i == len(node.generators):
                out.append((yield from elt_eval(fr)))
                return
            g = node.generators[i]
            it = yield from self.eval(g.iter, fr if i else frame)
            iterator = yield from self.get_iter(it, g, fr)
            while True:
                try:
                    x = yield from self.next_(iterator, g, fr)
                except PyExc as pe:
                    if isinstance(pe.exc, StopIteration):
                        return
                    raise
                yield from self.assign(g.target, x, fr)
                ok = True
                for c in g.ifs:
                    cv = yield from self.eval(c, fr)
                    if not self.truth(cv):
                        ok = False
                        break
                if ok:
                    yield from walk(i + 1)

        yield from walk(0)
        return out

    def e_ListComp(self, node, frame):
        return (yield from self._comp_items(node, frame, lambda fr: self.eval(node.elt, fr)))

    def e_SetComp(self, node, frame):
        items = yield from self._comp_items(node, frame, lambda fr: self.eval(node.elt, fr))
        return set(items)

    def e_DictComp(self, node, frame):
        def kv(fr):
            k = yield from self.eval(node.key, fr)
            v = yield from self.eval(node.value, fr)
            return (k, v)

        items = yield from self._comp_items(node, frame, kv)
        d = {}
        for k, v in items:
            if isinstance(k, Sym):
                raise Unsupported("dict comprehension with symbolic key")
            d[k] = v
        return d

    def e_GeneratorExp(self, node, frame):
        """lazy: an IGen whose elements are produced on demand (may fork inside)"""
        fr = Frame({}, frame.globals, frame.cells, frame, frame.defcls, frame.qualname, frame.filename, frame.lineoff)
        # the outermost iterable is evaluated immediately (as in Python)
        first_iter = yield from self.eval(node.generators[0].iter, frame)
        interp = self

        def gen():
            def walk(i):
                if i == len(node.generators):
                    v = run_sync(interp.eval(node.elt, fr))
                    yield v
                    return
                g = node.generators[i]
                it = first_iter if i == 0 else run_sync(interp.eval(g.iter, fr))
                iterator = run_sync(interp.get_iter(it, g, fr))
                while True:
                    try:
                        x = run_sync(interp.next_(iterator, g, fr))
                    except PyExc as pe:
                        if isinstance(pe.exc, StopIteration):
                            return
                        raise
                    run_sync(interp.assign(g.target, x, fr))
                    ok = True
                    for c in g.ifs:
                        cv = run_sync(interp.eval(c, fr))
                        if not interp.truth(cv):
                            ok = False
                            break
                    if ok:
                        yield from walk(i + 1)

            yield from walk(0)

        return IGen(gen(), "<genexpr>")

    def e_Starred(self, node, frame):
        raise Unsupported("starred expression")
        yield

    def e_Slice(self, node, frame):
        return (yield from self.eval_slice(node, frame))


class _BoundSuper:
    """method found through super(): remembers the class it was found in"""

    def __init__(self, fn, obj, defcls):
        self.fn = fn
        self.obj = obj
        self.defcls = defcls


class _Super:
    """zero-argument super() proxy"""

    def __init__(self, cls, obj):
        self.cls = cls
        self.obj = obj


# repo functions that only rearrange their arguments (tuple structure) and never inspect the symbolic parts:
# executed natively even when an argument carries symbols (a symbol reaching an inspecting operation raises
# NativeUseOfSymbol -> the unit is undecided, never wrong)
NATIVE_SAFE = {
    "tpmstream.common.path:Path.__new__", "tpmstream.common.path:Path.__add__", "tpmstream.common.path:Path.__truediv__",
    "tpmstream.common.path:Path.__getitem__", "tpmstream.common.path:PathNode.with_index",
}

_MISSING = object()
_BUILTIN_SCALARS = (int, bool, str, bytes, float, type(None))


def _hashable(x):
    try:
        hash(x)
        return True
    except Exception:
        return False


def _type_lookup(obj, name):
    """special-method lookup on the type (as the interpreter does for operators)"""
    t = type(obj)
    for k in t.__mro__:
        if name in k.__dict__:
            v = k.__dict__[name]
            if isinstance(v, (classmethod, staticmethod)):
                return v.__func__
            return v
    return None


def _check_loop_kind(spec, kind, frame):
    """a loop rule is written for one loop shape; if the function was restructured the rule does not apply: undecided"""
    want = getattr(spec, "kind", None)
    if want is not None and want != kind:
        raise Unsupported(f"loop rule for a {want}-loop met a {kind}-loop in {frame.qualname} (function was restructured)")


def _find_loop_spec(specs, node, frame):
    """loop rules are keyed (function, n-th loop) or (function, kind, n-th loop of that kind); a rule keyed with function
    "*" applies to the n-th loop of its kind in whatever interpreted function contains it (used where a unit interprets one
    function only and everything it calls is under contract, so that renaming / wrapping that function keeps the rule)"""
    if not specs:
        return None
    kord = tuple(getattr(node, "_pyvc_kord", ("?", -1)))
    return specs.get((frame.qualname, _loop_ordinal(node, frame))) or specs.get((frame.qualname,) + kord) or specs.get(("*",) + kord)


def _loop_ordinal(node, frame):
    return getattr(node, "_pyvc_ord", None)


def _delegate_native(it):
    try:
        return (yield from it)
    except INTERNAL:
        raise
    except PyExc:
        raise
    except S.NativeUseOfSymbol as e:
        raise Unsupported(f"native generator: {e}")
    except Exception as e:
        raise PyExc(e)
