"""Models of builtins / stdlib functions for symbolic arguments (DESIGN §2.8)."""
from __future__ import annotations

import binascii
import builtins
import dataclasses
import itertools
import string
import types

import z3

from . import sym as S
from .sym import SInt, SBool, SStr, SBytes, Sym, term, bterm, lift_int, lift_bool, mk_str, FmtInt, Bits, BitChar, Opaque


def _I():
    from . import interp

    return interp


def pytype(v):
    if isinstance(v, SInt):
        return int
    if isinstance(v, SBool):
        return bool
    if isinstance(v, SStr):
        return str
    if isinstance(v, SBytes):
        return bytes
    return type(v)


def is_intlike(v):
    return isinstance(v, (SInt, SBool, int)) and not isinstance(v, str)


def and_(a, b):
    if a is True:
        return b
    if b is True:
        return a
    if a is False or b is False:
        return False
    return lift_bool(z3.And(bterm(a), bterm(b)))


def or_(a, b):
    if a is False:
        return b
    if b is False:
        return a
    if a is True or b is True:
        return True
    return lift_bool(z3.Or(bterm(a), bterm(b)))


# ---------------------------------------------------------------------------------------------
# arithmetic / comparison on scalars

_ARITH = {"add", "sub", "mul", "floordiv", "mod", "and", "or", "xor", "lshift", "rshift", "truediv", "pow"}


def sym_binop(I, name, a, b):
    if isinstance(a, (SStr, str)) and isinstance(b, (SStr, str)) and name == "add":
        return mk_str([a, b])
    if isinstance(a, (SBytes, bytes)) and isinstance(b, (SBytes, bytes)) and name == "add":
        return SBytes(list(_bytes_items(a)) + list(_bytes_items(b)))
    if isinstance(a, str) and name == "mul" and is_intlike(b):
        raise _I().Unsupported("string repetition by a symbol")
    if not (is_intlike(a) and is_intlike(b)):
        if isinstance(a, list) and isinstance(b, list) and name == "add":
            return a + b
        if type(a) is tuple and type(b) is tuple and name == "add":
            return a + b
        if isinstance(a, list) and name == "mul" and isinstance(b, int):
            return a * b
        return NotImplemented
    ta, tb = term(a), term(b)
    ca = a if isinstance(a, int) else None
    cb = b if isinstance(b, int) else None
    if name == "add":
        return lift_int(ta + tb)
    if name == "sub":
        return lift_int(ta - tb)
    if name == "mul":
        return lift_int(ta * tb)
    if name == "floordiv":
        if cb is not None and cb > 0:
            return lift_int(ta / tb)
        if cb == 0:
            raise _I().PyExc(ZeroDivisionError("integer division or modulo by zero"))
        return SInt(S.uf("floordiv")(ta, tb))
    if name == "mod":
        if cb is not None and cb > 0:
            return lift_int(ta % tb)
        if cb == 0:
            raise _I().PyExc(ZeroDivisionError("integer division or modulo by zero"))
        return SInt(S.uf("mod")(ta, tb))
    if name == "and":
        if cb is not None and cb >= 0:
            return lift_int(S.and_mask(ta, cb))
        if ca is not None and ca >= 0:
            return lift_int(S.and_mask(tb, ca))
        return SInt(S.uf("and")(ta, tb))
    if name == "rshift":
        if cb is not None and 0 <= cb <= 1024:
            return lift_int(ta / z3.IntVal(1 << cb))
        return SInt(S.uf("rshift")(ta, tb))
    if name == "lshift":
        if cb is not None and 0 <= cb <= 1024:
            return lift_int(ta * z3.IntVal(1 << cb))
        return SInt(S.uf("lshift")(ta, tb))
    return SInt(S.uf(name)(ta, tb))


_REL = {
    "eq": lambda x, y: x == y,
    "ne": lambda x, y: x != y,
    "lt": lambda x, y: x < y,
    "le": lambda x, y: x <= y,
    "gt": lambda x, y: x > y,
    "ge": lambda x, y: x >= y,
}


def sym_compare(I, name, a, b):
    if is_intlike(a) and is_intlike(b):
        return lift_bool(_REL[name](term(a), term(b)))
    if isinstance(a, (SStr, str)) and isinstance(b, (SStr, str)) and name in ("eq", "ne"):
        r = str_equal(a, b)
        if name == "ne":
            r = lift_bool(z3.Not(bterm(r))) if not isinstance(r, bool) else (not r)
        return r
    if isinstance(a, (SBytes, bytes)) and isinstance(b, (SBytes, bytes)) and name in ("eq", "ne"):
        ia, ib = list(_bytes_items(a)), list(_bytes_items(b))
        if len(ia) != len(ib):
            r = False
        else:
            r = lift_bool(z3.And([term(x) == term(y) for x, y in zip(ia, ib)])) if ia else True
        if name == "ne":
            r = lift_bool(z3.Not(bterm(r))) if not isinstance(r, bool) else (not r)
        return r
    # symbolic scalar against an unrelated builtin object: never equal
    if isinstance(a, Sym) and (b is None or b is ... or isinstance(b, (str, bytes, tuple, list, dict, range, set, frozenset, type)) and not isinstance(b, Sym)):
        if type(a) is SStr and isinstance(b, str):
            return NotImplemented
        if name == "eq":
            return False
        if name == "ne":
            return True
    if isinstance(b, Sym) and (a is None or a is ... or isinstance(a, (str, bytes, tuple, list, dict, range, set, frozenset, type)) and not isinstance(a, Sym)):
        if name == "eq":
            return False
        if name == "ne":
            return True
    return NotImplemented


def _bytes_items(b):
    if isinstance(b, SBytes):
        return b.items
    return list(b)


def _norm_parts(s):
    return SStr([s]).parts if not isinstance(s, SStr) else s.parts


def str_equal(a, b):
    """structural equality of two (possibly symbolic) strings: bool or SBool; Unsupported if shapes differ in kind"""
    pa, pb = list(_norm_parts(a)), list(_norm_parts(b))
    conds = []
    # align literal text by splitting
    i = j = 0
    while i < len(pa) and j < len(pb):
        x, y = pa[i], pb[j]
        if isinstance(x, str) and isinstance(y, str):
            n = min(len(x), len(y))
            if x[:n] != y[:n]:
                return False
            if len(x) > n:
                pa[i] = x[n:]
                j += 1
            elif len(y) > n:
                pb[j] = y[n:]
                i += 1
            else:
                i += 1
                j += 1
            continue
        if isinstance(x, FmtInt) and isinstance(y, FmtInt) and x.spec == y.spec:
            conds.append(x.t == y.t)
            i += 1
            j += 1
            continue
        if isinstance(x, Bits) and isinstance(y, Bits) and x.width == y.width:
            conds.append(x.t == y.t)
            i += 1
            j += 1
            continue
        if isinstance(x, BitChar) and isinstance(y, BitChar):
            conds.append(S.bit_of(x.t, x.k) == S.bit_of(y.t, y.k))
            i += 1
            j += 1
            continue
        if isinstance(x, BitChar) and isinstance(y, str):
            if y[0] not in "01":
                return False
            conds.append(S.bit_of(x.t, x.k) == int(y[0]))
            pb[j] = y[1:]
            if not pb[j]:
                j += 1
            i += 1
            continue
        if isinstance(y, BitChar) and isinstance(x, str):
            if x[0] not in "01":
                return False
            conds.append(S.bit_of(y.t, y.k) == int(x[0]))
            pa[i] = x[1:]
            if not pa[i]:
                i += 1
            j += 1
            continue
        if isinstance(x, Bits) or isinstance(y, Bits):
            # expand to characters and retry
            ca = SStr(pa[i:]).chars()
            cb = SStr(pb[j:]).chars()
            if ca is None or cb is None:
                raise _I().Unsupported(f"string comparison {x!r} vs {y!r}")
            if len(ca) != len(cb):
                return False
            r = str_equal(SStr(ca), SStr(cb))
            return and_(lift_bool(z3.And(conds)) if conds else True, r)
        if isinstance(x, FmtInt) and isinstance(y, str) and y[0] not in "-0123456789abcdefABCDEF":
            return False  # an integer rendering never starts with such a character
        if isinstance(y, FmtInt) and isinstance(x, str) and x[0] not in "-0123456789abcdefABCDEF":
            return False
        if isinstance(x, Opaque) and isinstance(y, Opaque) and x.tag == y.tag:
            i += 1
            j += 1
            continue
        raise _I().Unsupported(f"string comparison {x!r} vs {y!r}")
    if i < len(pa) or j < len(pb):
        rest = pa[i:] or pb[j:]
        if all(isinstance(p, str) for p in rest):
            return False
        raise _I().Unsupported("string comparison of different shapes")
    if not conds:
        return True
    return lift_bool(z3.And(conds))


# ---------------------------------------------------------------------------------------------
# formatting


def format_(I, v, spec):
    if isinstance(v, SInt):
        return mk_str([FmtInt(v.t, spec)])
    if isinstance(v, SBool):
        if spec == "":
            # the text of a bool is one of two words: case split
            return "True" if I.ctx.decide(v.t, "format-bool") else "False"
        return mk_str([FmtInt(term(v), spec)])
    if isinstance(v, SStr):
        if spec == "":
            return v
        import re as _re

        m = _re.fullmatch(r"(?:(.)?([<>^]))?(\d+)", spec)
        n = v.fixed_len()
        if m and n is not None:
            fill, align, width = m.group(1) or " ", m.group(2) or "<", int(m.group(3))
            pad = max(0, width - n)
            if align == "<":
                return mk_str([v, fill * pad])
            if align == ">":
                return mk_str([fill * pad, v])
            return mk_str([fill * (pad // 2), v, fill * (pad - pad // 2)])
        raise _I().Unsupported(f"format spec {spec!r} on symbolic string")
    if isinstance(v, SBytes):
        raise _I().Unsupported("format of symbolic bytes")
    if not I.tainted(v):
        return I.native(format, (v, spec), {})
    f = _I()._type_lookup(v, "__format__")
    if f is not None and f is not object.__format__:
        if _I().is_repo_function(f):
            r = yield from I.call(f, (v, spec), {})
            return r
        if isinstance(v, (list, tuple, dict)):
            pass
        else:
            raise _I().Unsupported(f"__format__ of {type(v).__name__}")
    if spec != "":
        raise _I().PyExc(TypeError(f"unsupported format string passed to {type(v).__name__}.__format__"))
    return (yield from str_(I, v))


def str_(I, v):
    if isinstance(v, SInt):
        return mk_str([FmtInt(v.t, "")])
    if isinstance(v, SStr):
        return v
    if isinstance(v, Sym):
        raise _I().Unsupported(f"str of {type(v).__name__}")
    if not I.tainted(v):
        return I.native(str, (v,), {})
    f = _I()._type_lookup(v, "__str__")
    if f is not None and _I().is_repo_function(f):
        return (yield from I.call(f, (v,), {}))
    if isinstance(v, BaseException):
        if len(v.args) == 1:
            return (yield from str_(I, v.args[0]))
        return mk_str([Opaque(f"str(exc{id(v)})")])
    if f is object.__str__ or f is None or _I().is_generated_dataclass_method(f):
        return (yield from repr_(I, v))
    if isinstance(v, (list, tuple, dict)):
        return mk_str([Opaque(f"str(container)")])
    raise _I().Unsupported(f"__str__ of {type(v).__name__}")


def repr_(I, v):
    if isinstance(v, SInt):
        return mk_str([FmtInt(v.t, "")])
    if isinstance(v, Sym):
        raise _I().Unsupported(f"repr of {type(v).__name__}")
    if not I.tainted(v):
        return I.native(repr, (v,), {})
    f = _I()._type_lookup(v, "__repr__")
    if f is not None and _I().is_repo_function(f):
        return (yield from I.call(f, (v,), {}))
    return mk_str([Opaque(f"repr({type(v).__name__})")])


def _format_method(I, fmt, args, kwargs):
    """str.format for a concrete format string"""
    out = []
    auto = 0
    for lit, field, spec, conv in string.Formatter().parse(fmt):
        if lit:
            out.append(lit)
        if field is None:
            continue
        if field == "":
            val = args[auto]
            auto += 1
        elif field.isdigit():
            val = args[int(field)]
        else:
            if not field.isidentifier():
                raise _I().Unsupported(f"format field {field!r}")
            if field not in kwargs:
                raise _I().PyExc(KeyError(field))
            val = kwargs[field]
        # nested fields in spec
        if spec and "{" in spec:
            spec = yield from _format_method(I, spec, args, kwargs)
            if not isinstance(spec, str):
                raise _I().Unsupported("symbolic nested format spec")
        if conv == "r":
            val = yield from repr_(I, val)
        elif conv == "s":
            val = yield from str_(I, val)
        out.append((yield from format_(I, val, spec or "")))
    return mk_str(out)


# ---------------------------------------------------------------------------------------------
# membership / subscripts


class SRange:
    """range with symbolic bounds (step 1)"""

    def __init__(self, lo, hi):
        self.lo = lo
        self.hi = hi


def contains(I, container, item, node=None, frame=None):
    X = _I()
    if isinstance(container, range):
        if is_intlike(item):
            if isinstance(item, (SInt, SBool)):
                t = term(item)
                if container.step == 1:
                    return lift_bool(z3.And(t >= container.start, t < container.stop))
                if container.step > 0:
                    return lift_bool(z3.And(t >= container.start, t < container.stop, (t - container.start) % container.step == 0))
                raise X.Unsupported("negative-step range membership")
            return item in container
        if I.tainted(item):
            # range.__contains__ on a non-int falls back to iteration with ==; for numeric-like objects use __index__/__int__... CPython: only exact ints take the fast path
            idx = X._type_lookup(item, "__eq__")
            if idx is not None:
                # linear search semantics = exists k in range with item == k; for @numeric types this is int(item) in range
                iv = yield from int_(I, item)
                return (yield from contains(I, container, iv, node, frame))
        return I.native(lambda c, i: i in c, (container, item), {})
    if isinstance(container, SRange):
        t = term(item)
        return lift_bool(z3.And(t >= term(container.lo), t < term(container.hi)))
    if isinstance(container, (dict, set, frozenset)) or type(container).__name__ in ("dict_keys", "mappingproxy"):
        import collections

        if isinstance(container, collections.defaultdict) and container.default_factory is not None:
            # a defaultdict that outlives the call is filled by every lookup of a missing key; the frame condition tolerates
            # those default-valued entries only because nothing observes them: a membership test does
            from . import frame as F

            o = F.owner_of(container)
            if o is not None:
                I.ctx.frame_writes.append(f"membership test on the lazily filled shared table {o} (its keys depend on what was looked up before)")
        if not I.tainted(item) and not isinstance(item, Sym):
            return I.native(lambda c, i: i in c, (container, item), {})
        keys = list(container.keys() if hasattr(container, "keys") else container)
        idx = yield from _match_key(I, keys, item)
        return idx is not None
    if isinstance(container, (list, tuple)):
        if not I.tainted(item) and not I.tainted(container):
            return I.native(lambda c, i: i in c, (container, item), {})
        acc = False
        for e in container:
            if e is item:
                return True
            r = yield from I.rich_compare("eq", e, item, node, frame)
            if isinstance(r, SBool):
                acc = or_(acc, r)
            elif I.truth(r):
                return True
        return acc
    if isinstance(container, (str, bytes)) and not isinstance(item, Sym):
        return I.native(lambda c, i: i in c, (container, item), {})
    if isinstance(container, (SStr, SBytes)) or isinstance(item, (SStr, SBytes)):
        raise X.Unsupported("substring test with symbols")
    m = X._type_lookup(container, "__contains__")
    if m is not None:
        r = yield from I.call(m, (container, item), {}, node, frame)
        if isinstance(r, SBool):
            return r
        return I.truth(r)
    m = X._type_lookup(container, "__iter__")
    if m is not None:
        items = yield from I.iterate_all(container, node, frame)
        return (yield from contains(I, items, item, node, frame))
    I.raise_(TypeError(f"argument of type '{type(container).__name__}' is not iterable"), node, frame)


def _match_key(I, keys, item):
    """fork over the keys of a dict for a symbolic lookup key; index of the matching key or None"""
    conds = []
    it_term = _numeric_term(item)
    for k in keys:
        if k is item:
            return keys.index(k)
        if it_term is not None:
            kt = _numeric_const(k)
            if kt is not None:
                # lemma C16/OPS (eq): a numeric-emulating value equals k iff the integers are equal
                conds.append(z3.simplify(it_term == kt))
                continue
        r = yield from I.rich_compare("eq", item, k)
        if isinstance(r, SBool):
            conds.append(r.t)
        elif I.truth(r):
            conds.append(z3.BoolVal(True))
        else:
            conds.append(z3.BoolVal(False))
    none = z3.Not(z3.Or(conds)) if conds else z3.BoolVal(True)
    # first matching key wins (dict semantics with consistent hash): make options exclusive
    opts = []
    prev = []
    for c in conds:
        opts.append(z3.And(c, *[z3.Not(p) for p in prev]) if prev else c)
        # keys of a dict are pairwise unequal, so exclusivity normally holds already; keep it cheap
        prev = prev  # (not accumulating: keys are distinct)
    opts.append(none)
    i = I.ctx.fork(opts, "dict-key")
    if i == len(keys):
        return None
    return i


def _is_numeric_emulation(obj):
    eq = type(obj).__dict__.get("__eq__") or next((k.__dict__["__eq__"] for k in type(obj).__mro__ if "__eq__" in k.__dict__), None)
    return getattr(eq, "__qualname__", "") == "numeric.<locals>.__eq__"


def _numeric_term(item):
    if isinstance(item, (SInt,)):
        return item.t
    if isinstance(item, Sym) or item is None or isinstance(item, (str, bytes, type)):
        return None
    if _is_numeric_emulation(item):
        v = getattr(item, "__dict__", {}).get("_value")
        d = 0
        while v is not None and not isinstance(v, (SInt, int)) and d < 4:
            v = getattr(v, "_value", None)
            d += 1
        if isinstance(v, SInt):
            return v.t
        if isinstance(v, int) and not isinstance(v, bool):
            return z3.IntVal(v)
    return None


def _numeric_const(k):
    if isinstance(k, bool):
        return None
    if isinstance(k, int):
        return z3.IntVal(k)
    if k is None or isinstance(k, (str, bytes, type, Sym)):
        return None
    if _is_numeric_emulation(k):
        try:
            return z3.IntVal(int(k))
        except Exception:
            return None
    return None


def subscript(I, obj, key, node=None, frame=None):
    X = _I()
    if isinstance(obj, dict) or type(obj).__name__ == "mappingproxy":
        if isinstance(key, Sym) or I.tainted(key):
            keys = list(obj.keys())
            idx = yield from _match_key(I, keys, key)
            I.ctx.count_safety("dict-lookup", I.site(node, frame) if node is not None else "?")
            if idx is None:
                import collections

                if isinstance(obj, collections.defaultdict) and obj.default_factory is not None:
                    # __missing__: the default (the insertion under a symbolic key is not modelled)
                    return (yield from I.call(obj.default_factory, (), {}))
                I.raise_(KeyError(key), node, frame)
            return obj[keys[idx]]
        try:
            return obj[key]
        except KeyError as e:
            I.raise_(e, node, frame)
    if isinstance(obj, SStr):
        ch = obj.chars()
        if ch is None or isinstance(key, (Sym, tuple)):
            raise X.Unsupported("subscript of symbolic string")
        r = ch[key]
        return mk_str(r if isinstance(r, list) else [r])
    if isinstance(obj, SBytes) and isinstance(key, tuple) and key and key[0] == "slice" and key[1] is None and key[3] is None and isinstance(key[2], SInt):
        # b[:n] with symbolic n >= 0: case split over the cut position (n >= len gives the whole string)
        n = len(obj.items)
        t = key[2].t
        opts = [t == k for k in range(n)] + [t >= n, t < 0]
        k = I.ctx.fork(opts, "slice-bound")
        if k < n:
            return SBytes(obj.items[:k])
        if k == n:
            return obj
        raise X.Unsupported("negative symbolic slice bound")
    if isinstance(obj, SBytes):
        if isinstance(key, (Sym, tuple)):
            raise X.Unsupported("symbolic index into bytes")
        r = obj.items[key]
        if isinstance(key, slice):
            return SBytes(r)
        return r if isinstance(r, int) else SInt(r)
    if isinstance(key, (Sym,)) or (isinstance(key, tuple) and key and key[0] == "slice"):
        raise X.Unsupported(f"symbolic subscript on {type(obj).__name__}")
    if isinstance(obj, (list, tuple, str, bytes, range)):
        try:
            return obj[key]
        except S.NativeUseOfSymbol as e:
            raise X.Unsupported(str(e))
        except Exception as e:
            I.raise_(e, node, frame)
    if isinstance(obj, type) or not I.tainted(obj):
        return I.native(lambda o, k: o[k], (obj, key), {})
    m = X._type_lookup(obj, "__getitem__")
    if m is not None:
        return (yield from I.call(m, (obj, key), {}, node, frame))
    I.raise_(TypeError(f"'{type(obj).__name__}' object is not subscriptable"), node, frame)


def container_compare(I, name, a, b):
    """== / != on tuples, lists (incl. Path) and dataclass instances holding symbols"""
    if name not in ("eq", "ne"):
        return NotImplemented
    r = NotImplemented
    if isinstance(a, (tuple, list)) and isinstance(b, (tuple, list)) and (isinstance(a, tuple) == isinstance(b, tuple)):
        if len(a) != len(b):
            r = False
        else:
            r = True
            for x, y in zip(a, b):
                if x is y:
                    continue
                c = yield from I.compare(__import__("ast").Eq, x, y)
                if isinstance(c, SBool):
                    r = and_(r, c)
                elif not I.truth(c):
                    r = False
                    break
    if r is NotImplemented:
        return r
    if name == "ne":
        return lift_bool(z3.Not(bterm(r))) if not isinstance(r, bool) else (not r)
    return r
    yield


def dataclass_eq(I, a, b):
    if type(a) is not type(b):
        return NotImplemented
    fa = tuple(getattr(a, f.name) for f in dataclasses.fields(a) if f.compare)
    fb = tuple(getattr(b, f.name) for f in dataclasses.fields(b) if f.compare)
    r = yield from container_compare(I, "eq", fa, fb)
    return r


# ---------------------------------------------------------------------------------------------
# conversions


def int_(I, v, base=None):
    X = _I()
    if isinstance(v, SInt):
        return v
    if isinstance(v, SBool):
        return lift_int(term(v))
    if isinstance(v, Sym):
        raise X.Unsupported(f"int() of {type(v).__name__}")
    if not I.tainted(v):
        return I.native(int, (v,) if base is None else (v, base), {})
    for nm in ("__int__", "__index__"):
        m = X._type_lookup(v, nm)
        if m is not None:
            r = yield from I.call(m, (v,), {})
            return r
    raise X.PyExc(TypeError(f"int() argument must be a string, a bytes-like object or a real number, not '{type(v).__name__}'"))


def index_(I, v):
    if isinstance(v, (SInt, SBool, int)):
        return v
    m = _I()._type_lookup(v, "__index__")
    if m is None:
        raise _I().PyExc(TypeError(f"'{type(v).__name__}' object cannot be interpreted as an integer"))
    return (yield from I.call(m, (v,), {}))


def m_int(I, args, kwargs):
    if not args:
        return 0
    return (yield from int_(I, args[0], args[1] if len(args) > 1 else kwargs.get("base")))


def m_bool(I, args, kwargs):
    v = args[0] if args else False
    if isinstance(v, SBool):
        return v
    if isinstance(v, SInt):
        return lift_bool(v.t != 0)
    return I.truth(v)
    yield


def m_len(I, args, kwargs):
    v = args[0]
    if isinstance(v, SBytes):
        return len(v.items)
    if isinstance(v, SStr):
        n = v.fixed_len()
        if n is None:
            raise _I().Unsupported("len of string of unknown length")
        return n
    if isinstance(v, Sym):
        raise _I().PyExc(TypeError(f"object of type '{pytype(v).__name__}' has no len()"))
    m = _I()._type_lookup(v, "__len__")
    if m is not None and _I().is_repo_function(m):
        return (yield from I.call(m, (v,), {}))
    return I.native(len, (v,), {})


def m_isinstance(I, args, kwargs):
    v, t = args
    if isinstance(v, Sym):
        pt = pytype(v)
        return issubclass(pt, t) if not isinstance(t, tuple) else any(issubclass(pt, x) for x in t)
    return isinstance(v, t)
    yield


def m_type(I, args, kwargs):
    if len(args) != 1:
        return I.native(type, args, kwargs)
    return pytype(args[0])
    yield


def m_hasattr(I, args, kwargs):
    obj, name = args
    if isinstance(obj, Sym):
        return hasattr(pytype(obj), name)
    try:
        I.getattr_(obj, name)
        return True
    except _I().PyExc as e:
        if isinstance(e.exc, AttributeError):
            return False
        raise
    yield


def m_getattr(I, args, kwargs):
    obj, name = args[0], args[1]
    try:
        return I.getattr_(obj, name)
    except _I().PyExc as e:
        if isinstance(e.exc, AttributeError) and len(args) > 2:
            return args[2]
        raise
    yield


def m_setattr(I, args, kwargs):
    I.setattr_(args[0], args[1], args[2])
    return None
    yield


def m_range(I, args, kwargs):
    vals = []
    for a in args:
        vals.append((yield from index_(I, a)))
    if all(isinstance(v, int) for v in vals):
        return range(*vals)
    if len(vals) == 1:
        return SRange(0, vals[0])
    if len(vals) == 2:
        return SRange(vals[0], vals[1])
    raise _I().Unsupported("symbolic range with step")


def m_any(I, args, kwargs):
    it = yield from I.get_iter(args[0])
    while True:
        try:
            x = yield from I.next_(it)
        except _I().PyExc as pe:
            if isinstance(pe.exc, StopIteration):
                return False
            raise
        if I.truth(x):
            return True


def m_all(I, args, kwargs):
    it = yield from I.get_iter(args[0])
    while True:
        try:
            x = yield from I.next_(it)
        except _I().PyExc as pe:
            if isinstance(pe.exc, StopIteration):
                return True
            raise
        if not I.truth(x):
            return False


_NODEFAULT = object()


def m_next(I, args, kwargs):
    it = args[0]
    try:
        return (yield from I.next_(it))
    except _I().PyExc as pe:
        if isinstance(pe.exc, StopIteration) and len(args) > 1:
            return args[1]
        raise


def m_iter(I, args, kwargs):
    return (yield from I.get_iter(args[0]))


def m_list(I, args, kwargs):
    if not args:
        return []
    return list((yield from I.iterate_all(args[0])))


def m_tuple(I, args, kwargs):
    if not args:
        return ()
    return tuple((yield from I.iterate_all(args[0])))


def m_enumerate(I, args, kwargs):
    items = yield from I.iterate_all(args[0])
    start = args[1] if len(args) > 1 else kwargs.get("start", 0)
    return [(i + start, x) for i, x in enumerate(items)]


def m_zip(I, args, kwargs):
    cols = []
    for a in args:
        cols.append((yield from I.iterate_all(a)))
    return list(zip(*cols))


def m_reversed(I, args, kwargs):
    v = args[0]
    if isinstance(v, (list, tuple)):
        return iter(list(v)[::-1])
    items = yield from I.iterate_all(v)
    return iter(items[::-1])


def m_sorted(I, args, kwargs):
    items = yield from I.iterate_all(args[0])
    key = kwargs.get("key")
    rev = kwargs.get("reverse", False)
    if key is None:
        if any(I.tainted(x) for x in items):
            raise _I().Unsupported("sorted() of symbolic items without key")
        return I.native(sorted, (items,), {"reverse": rev})
    ks = []
    for x in items:
        k = yield from I.call(key, (x,), {})
        if isinstance(k, Sym) or I.tainted(k):
            raise _I().Unsupported("sorted() with symbolic key")
        ks.append(k)
    order = sorted(range(len(items)), key=lambda i: ks[i], reverse=rev)
    return [items[i] for i in order]


def m_str(I, args, kwargs):
    if not args:
        return ""
    return (yield from str_(I, args[0]))


def m_repr(I, args, kwargs):
    return (yield from repr_(I, args[0]))


def m_format(I, args, kwargs):
    return (yield from format_(I, args[0], args[1] if len(args) > 1 else ""))


def m_hash(I, args, kwargs):
    v = args[0]
    if isinstance(v, (SInt, SBool)):
        return lift_int(py_int_hash(term(v)))
    if isinstance(v, Sym):
        raise _I().Unsupported("hash of symbolic string")
    m = _I()._type_lookup(v, "__hash__")
    if m is not None and _I().is_repo_function(m):
        return (yield from I.call(m, (v,), {}))
    return I.native(hash, (v,), {})


def py_int_hash(t):
    """CPython's hash of an int (64-bit build): sign * (|v| mod (2**61 - 1)), with -1 mapped to -2"""
    P = (1 << 61) - 1
    a = z3.If(t >= 0, t, -t)
    r = z3.If(t >= 0, a % P, -(a % P))
    return z3.If(r == -1, z3.IntVal(-2), r)


def m_bytes(I, args, kwargs):
    if not args:
        return b""
    v = args[0]
    if isinstance(v, (SBytes, bytes)):
        return v
    from .sym import SByteBuf

    if isinstance(v, SByteBuf):
        return SByteBuf(v.length, frozen=True)
    if isinstance(v, Sym):
        raise _I().Unsupported("bytes(symbolic int)")
    items = yield from I.iterate_all(v)
    if all(isinstance(x, int) for x in items):
        return I.native(bytes, (items,), {})
    for x in items:
        if isinstance(x, (SInt,)):
            ok = I.ctx.decide(z3.And(x.t >= 0, x.t <= 255), "bytes-range")
            if not ok:
                raise _I().PyExc(ValueError("bytes must be in range(0, 256)"))
        elif not isinstance(x, int):
            raise _I().Unsupported("bytes() of non-int items")
    return SBytes([term(x) if isinstance(x, Sym) else x for x in items])


def m_bytearray(I, args, kwargs):
    from .sym import SByteBuf

    if len(args) == 1 and isinstance(args[0], SInt):
        n = args[0].t
        if I.ctx.decide(n < 0, "bytearray-negative-count"):
            raise _I().PyExc(ValueError("negative count"))
        return SByteBuf(n)
    if any(isinstance(a, Sym) for a in args):
        raise _I().Unsupported("bytearray of a symbolic value")
    return I.native(bytearray, args, kwargs)
    yield


def m_int_from_bytes(I, args, kwargs):
    data = args[0]
    byteorder = args[1] if len(args) > 1 else kwargs.get("byteorder", "big")
    signed = kwargs.get("signed", False)
    if isinstance(data, SBytes):
        items = [SInt(x) if z3.is_expr(x) else x for x in data.items]
    else:
        items = yield from I.iterate_all(data)
    if isinstance(byteorder, Sym) or isinstance(signed, Sym):
        raise _I().Unsupported("symbolic byteorder/signed")
    for x in items:
        if isinstance(x, SInt):
            ok = I.ctx.decide(z3.And(x.t >= 0, x.t <= 255), "from_bytes-range")
            if not ok:
                raise _I().PyExc(ValueError("bytes must be in range(0, 256)"))
        elif not isinstance(x, int):
            raise _I().PyExc(TypeError(f"'{pytype(x).__name__}' object cannot be interpreted as an integer"))
    n = len(items)
    if byteorder == "little":
        items = items[::-1]
    elif byteorder != "big":
        raise _I().PyExc(ValueError("byteorder must be either 'little' or 'big'"))
    if n == 0:
        return 0
    total = z3.Sum([term(x) * z3.IntVal(256 ** (n - 1 - i)) for i, x in enumerate(items)]) if n > 1 else term(items[0])
    if signed:
        total = z3.If(term(items[0]) >= 128, total - z3.IntVal(256**n), total)
    r = lift_int(total)
    if isinstance(r, SInt):
        register_from_bytes(I.ctx, r.t, [term(x) for x in items], bool(signed))
    return r


def register_from_bytes(ctx, total, items, signed):
    """remember that `total` is int.from_bytes(items, 'big', signed): lets to_bytes of the same term give the bytes back
    (library lemma: int.to_bytes(int.from_bytes(b, 'big', signed=s), len(b), 'big', signed=s) == b)"""
    ctx.ghost.setdefault("from_bytes", []).append((total, list(items), signed))


def int_to_bytes(I, v, args, kwargs):
    size = args[0] if args else kwargs.get("length", 1)
    byteorder = args[1] if len(args) > 1 else kwargs.get("byteorder", "big")
    signed = kwargs.get("signed", False)
    if isinstance(size, Sym) or isinstance(byteorder, Sym) or isinstance(signed, Sym):
        raise _I().Unsupported("symbolic to_bytes parameters")
    t = term(v)
    if signed:
        lo, hi = -(1 << (8 * size - 1)), (1 << (8 * size - 1))
    else:
        lo, hi = 0, 1 << (8 * size)
    I.ctx.count_safety("to_bytes-range", "int.to_bytes")
    if not I.ctx.decide(z3.And(t >= lo, t < hi), "to_bytes-range"):
        if not signed and I.ctx.decide(t < 0, "to_bytes-neg"):
            raise _I().PyExc(OverflowError("can't convert negative int to unsigned"))
        raise _I().PyExc(OverflowError("int too big to convert"))
    items = None
    for total, its, sg in I.ctx.ghost.get("from_bytes", []):
        if len(its) == size and sg == bool(signed) and total.eq(t):
            items = list(its)
            break
    if items is None:
        items = [z3.simplify((t / z3.IntVal(256 ** (size - 1 - i))) % 256) for i in range(size)]
    if byteorder == "little":
        items = items[::-1]
    return SBytes(items)
    yield


def sym_method(I, obj, name, args, kwargs):
    X = _I()
    if isinstance(obj, (SInt, SBool)):
        if name == "to_bytes":
            return (yield from int_to_bytes(I, obj, args, kwargs))
        if name == "__format__":
            return (yield from format_(I, obj, args[0] if args else ""))
        if name in ("__int__", "__index__"):
            return lift_int(term(obj))
        if name == "__str__":
            return (yield from str_(I, obj))
        raise X.Unsupported(f"int.{name} on symbol")
    if isinstance(obj, SStr):
        if name == "zfill":
            (n,) = args
            ps = obj.parts
            if len(ps) == 1 and isinstance(ps[0], FmtInt) and ps[0].spec == "b":
                t = ps[0].t
                I.ctx.count_safety("bits-range", "zfill")
                if I.ctx.decide(z3.And(t >= 0, t < (1 << n)), "zfill-range"):
                    return SStr([Bits(t, n)])
                raise X.Unsupported("binary rendering wider than the zfill width (or negative)")
            ln = obj.fixed_len()
            if ln is not None and ln >= n:
                return obj
            raise X.Unsupported("zfill on symbolic string")
        if name in ("ljust", "rjust"):
            ln = obj.fixed_len()
            if ln is None:
                raise X.Unsupported(f"{name} on string of unknown length")
            pad = (args[1] if len(args) > 1 else " ") * max(0, args[0] - ln)
            return mk_str([obj, pad] if name == "ljust" else [pad, obj])
        if name == "join":
            items = yield from I.iterate_all(args[0])
            out = []
            for i, x in enumerate(items):
                if i:
                    out.append(obj)
                out.append(x)
            return mk_str(out)
        if name == "__format__":
            return (yield from format_(I, obj, args[0] if args else ""))
        if name in ("decode", "encode"):
            return obj
        raise X.Unsupported(f"str.{name} on symbol")
    if isinstance(obj, _HexBytes):
        if name == "decode":
            return mk_str([FmtInt(term(x) if not isinstance(x, int) else z3.IntVal(x), "02x", width=2) for x in obj.b.items])
        raise X.Unsupported(f"hexlify(...).{name}")
    if isinstance(obj, SBytes) and name in ("startswith", "endswith"):
        prefixes = args[0] if isinstance(args[0], tuple) else (args[0],)
        acc = False
        for pre in prefixes:
            if not isinstance(pre, bytes):
                raise X.Unsupported("startswith with a symbolic prefix")
            if len(pre) > len(obj.items):
                continue
            its = obj.items[:len(pre)] if name == "startswith" else obj.items[len(obj.items) - len(pre):]
            c = lift_bool(z3.And([term(x) == b for x, b in zip(its, pre)])) if pre else True
            acc = or_(acc, c)
        return acc
    if isinstance(obj, SBytes):
        if name == "decode":
            raise X.Unsupported("decode of symbolic bytes")
        if name == "hex":
            return mk_str([FmtInt(term(x), "02x") for x in obj.items])
        raise X.Unsupported(f"bytes.{name} on symbol")
    raise X.Unsupported(f"method {name} on {type(obj).__name__}")


def m_str_join(I, args, kwargs):
    sep, it = args
    items = yield from I.iterate_all(it)
    out = []
    for i, x in enumerate(items):
        if i:
            out.append(sep)
        if not isinstance(x, (str, SStr)):
            raise _I().PyExc(TypeError(f"sequence item {i}: expected str instance, {pytype(x).__name__} found"))
        out.append(x)
    return mk_str(out)


def m_bytes_join(I, args, kwargs):
    sep, it = args
    items = yield from I.iterate_all(it)
    out = []
    for i, x in enumerate(items):
        if i:
            out.extend(list(sep))
        if isinstance(x, SBytes):
            out.extend(x.items)
        elif isinstance(x, bytes):
            out.extend(list(x))
        else:
            raise _I().PyExc(TypeError(f"sequence item {i}: expected a bytes-like object, {pytype(x).__name__} found"))
    if all(isinstance(x, int) for x in out):
        return bytes(out)
    return SBytes(out)


def m_str_format(I, args, kwargs):
    return (yield from _format_method(I, args[0], args[1:], kwargs))


def m_hexlify(I, args, kwargs):
    v = args[0]
    if isinstance(v, SBytes):
        return _HexBytes(v)
    return I.native(binascii.hexlify, args, kwargs)
    yield


class _HexBytes(Sym):
    """binascii.hexlify(SBytes): only .decode() is supported"""

    def __init__(self, b):
        self.b = b


def m_fields(I, args, kwargs):
    v = args[0]
    if isinstance(v, Sym):
        raise _I().PyExc(TypeError("must be called with a dataclass type or instance"))
    cls = v if isinstance(v, type) else type(v)
    try:
        return dataclasses.fields(cls)
    except TypeError as e:
        raise _I().PyExc(e)
    yield


def m_object_setattr(I, args, kwargs):
    I.note_write(args[0], f"object.__setattr__ .{args[1]}")
    try:
        object.__setattr__(*args)
    except Exception as e:
        raise _I().PyExc(e)
    return None
    yield


def m_chain(I, args, kwargs):
    out = []
    for a in args:
        out.extend((yield from I.iterate_all(a)))
    return iter(out)


_MODELS = {
    int: m_int,
    bool: m_bool,
    len: m_len,
    isinstance: m_isinstance,
    type: m_type,
    hasattr: m_hasattr,
    getattr: m_getattr,
    setattr: m_setattr,
    range: m_range,
    any: m_any,
    all: m_all,
    next: m_next,
    iter: m_iter,
    list: m_list,
    tuple: m_tuple,
    enumerate: m_enumerate,
    zip: m_zip,
    sorted: m_sorted,
    reversed: m_reversed,
    str: m_str,
    repr: m_repr,
    format: m_format,
    hash: m_hash,
    bytes: m_bytes,
    bytearray: m_bytearray,
    binascii.hexlify: m_hexlify,
    dataclasses.fields: m_fields,
    object.__setattr__: m_object_setattr,
    itertools.chain: m_chain,
}

_ALWAYS = {any, all, next, iter, hasattr, getattr, sorted, reversed, enumerate, zip, list, tuple, range, len, int, str}

_METHOD_MODELS = {
    (int, "from_bytes"): m_int_from_bytes,
    (str, "join"): m_str_join,
    (str, "format"): m_str_format,
}

_OPAQUE_SAFE_METHODS = {
    list: {"append", "extend", "copy", "insert", "pop", "clear", "reverse", "__len__", "__iter__", "__init__"},
    dict: {"get", "setdefault", "items", "keys", "values", "update", "pop", "copy", "__len__"},
    tuple: {"__add__", "__len__", "__new__", "__getitem__"},
}


def lookup(fn):
    try:
        m = _MODELS.get(fn)
    except TypeError:
        return None
    if m is not None:
        return m
    if isinstance(fn, types.BuiltinMethodType):
        slf = getattr(fn, "__self__", None)
        if slf is int and fn.__name__ == "from_bytes":
            return m_int_from_bytes
        if isinstance(slf, str) and fn.__name__ in ("join", "format"):
            mm = _METHOD_MODELS[(str, fn.__name__)]
            return lambda I, args, kwargs: mm(I, (slf,) + tuple(args), kwargs)
        if isinstance(slf, bytes) and fn.__name__ == "join":
            return lambda I, args, kwargs: m_bytes_join(I, (slf,) + tuple(args), kwargs)
    return None


def always(fn):
    try:
        return fn in _ALWAYS
    except TypeError:
        return False


def force_interpret(fn):
    return False


def force_interpret_class(cls):
    return False


def opaque_safe(fn):
    """native callables that never inspect the (possibly symbolic) values handed to them"""
    slf = getattr(fn, "__self__", None)
    name = getattr(fn, "__name__", "")
    if isinstance(fn, (types.BuiltinMethodType, types.MethodWrapperType)):
        I = _I()
        if isinstance(slf, I.IGen):
            return True
        if isinstance(slf, BaseException) and name == "__init__":
            return True
        for t, names in _OPAQUE_SAFE_METHODS.items():
            if isinstance(slf, t) and name in names:
                return True
        if isinstance(slf, (set, frozenset)) and name in ("__sub__", "__rsub__", "__or__", "__and__", "__xor__", "difference", "union", "intersection", "__contains__", "add", "discard", "remove", "copy"):
            # sets of objects with identity hashing and identity equality: the operation looks at addresses only
            others = [a for a in getattr(fn, "__self__", ())]
            return all(type(e).__eq__ is object.__eq__ and type(e).__hash__ is object.__hash__ for e in slf)
        if isinstance(slf, list) and name in ("remove", "index", "count", "__contains__"):
            # identity semantics when no element type overrides __eq__
            return all(type(e).__eq__ is object.__eq__ for e in slf)
        if slf is tuple or slf is list or slf is dict or slf is object:
            return name in ("__new__", "__init__")
    if isinstance(fn, types.MethodType):
        return False
    if isinstance(fn, (types.WrapperDescriptorType, types.MethodDescriptorType)):
        oc = getattr(fn, "__objclass__", None)
        if oc in _OPAQUE_SAFE_METHODS and name in _OPAQUE_SAFE_METHODS[oc]:
            return True
        if oc is object and name in ("__init__", "__setattr__"):
            return True
        if oc is BaseException and name == "__init__":
            return True
    return False


def iter_model(I, it):
    return None
