"""pyvc value domain: symbolic ints / bools / strings / byte strings over z3 terms.

Concrete Python objects are used as they are.  Symbolic scalars are wrapped so that the
interpreter never hands them to native code that would inspect them.
"""
from __future__ import annotations

import itertools
import z3

_counter = itertools.count()


class Sym:
    """Base of all symbolic scalar wrappers."""

    __slots__ = ()


class SInt(Sym):
    __slots__ = ("t",)

    def __init__(self, t):
        assert z3.is_expr(t) and t.sort() == z3.IntSort(), t
        self.t = t

    def __repr__(self):
        return f"SInt({self.t})"

    # never let native code truth-test or hash these silently
    def __bool__(self):
        raise NativeUseOfSymbol("bool(SInt)")

    def __index__(self):
        raise NativeUseOfSymbol("index(SInt)")

    def __int__(self):
        raise NativeUseOfSymbol("int(SInt)")

    def __eq__(self, other):
        raise NativeUseOfSymbol("SInt ==")

    def __ne__(self, other):
        raise NativeUseOfSymbol("SInt !=")

    __hash__ = object.__hash__


class SBool(Sym):
    __slots__ = ("t",)

    def __init__(self, t):
        assert z3.is_expr(t) and t.sort() == z3.BoolSort(), t
        self.t = t

    def __repr__(self):
        return f"SBool({self.t})"

    def __bool__(self):
        raise NativeUseOfSymbol("bool(SBool)")

    def __eq__(self, other):
        raise NativeUseOfSymbol("SBool ==")

    __hash__ = object.__hash__


class NativeUseOfSymbol(Exception):
    """A symbolic value reached native code that inspects it: engine limitation, never a violation."""


# ---------------------------------------------------------------------------------------------
# structured strings


class FmtInt:
    """format(<int term>, spec) — spec is a concrete format spec such as '', 'd', 'x', '04x', 'b'."""

    __slots__ = ("t", "spec", "width")

    def __init__(self, t, spec, width=None):
        self.t = t
        self.spec = "" if spec in ("d",) else spec
        self.width = width  # rendered width when it is known (e.g. 2 for a byte as '02x')

    def __repr__(self):
        return f"{{{self.t}:{self.spec}}}"


class Bits:
    """width-character binary rendering of an int term known to lie in [0, 2**width)."""

    __slots__ = ("t", "width")

    def __init__(self, t, width):
        self.t = t
        self.width = width

    def __repr__(self):
        return f"{{bits {self.t}/{self.width}}}"


class BitChar:
    """one character '0'/'1': bit k (k = 0 is the least significant) of an int term."""

    __slots__ = ("t", "k")

    def __init__(self, t, k):
        self.t = t
        self.k = k

    def __repr__(self):
        return f"{{bit{self.k} {self.t}}}"


class Opaque:
    """an uninterpreted piece of text (exception messages etc.)"""

    __slots__ = ("tag",)

    def __init__(self, tag):
        self.tag = tag

    def __repr__(self):
        return f"{{?{self.tag}}}"


class SStr(Sym):
    """concatenation of parts: str | FmtInt | Bits | BitChar | Opaque"""

    __slots__ = ("parts",)

    def __init__(self, parts):
        out = []
        for p in parts:
            if isinstance(p, SStr):
                ps = p.parts
            else:
                ps = (p,)
            for q in ps:
                if isinstance(q, str):
                    if not q:
                        continue
                    if out and isinstance(out[-1], str):
                        out[-1] = out[-1] + q
                        continue
                out.append(q)
        self.parts = tuple(out)

    def __repr__(self):
        return "SStr(" + "".join(p if isinstance(p, str) else repr(p) for p in self.parts) + ")"

    def __bool__(self):
        raise NativeUseOfSymbol("bool(SStr)")

    def __eq__(self, other):
        raise NativeUseOfSymbol("SStr ==")

    __hash__ = object.__hash__

    def fixed_len(self):
        """length if it is determined by the structure, else None"""
        n = 0
        for p in self.parts:
            if isinstance(p, str):
                n += len(p)
            elif isinstance(p, Bits):
                n += p.width
            elif isinstance(p, BitChar):
                n += 1
            elif isinstance(p, FmtInt) and p.width is not None:
                n += p.width
            else:
                return None
        return n

    def chars(self):
        """list of single characters (str of length 1 or BitChar); None if not of fixed shape"""
        out = []
        for p in self.parts:
            if isinstance(p, str):
                out.extend(p)
            elif isinstance(p, Bits):
                out.extend(BitChar(p.t, p.width - 1 - i) for i in range(p.width))
            elif isinstance(p, BitChar):
                out.append(p)
            else:
                return None
        return out


def mk_str(parts):
    s = SStr(parts)
    if all(isinstance(p, str) for p in s.parts):
        return "".join(s.parts)
    return s


class SBytes(Sym):
    """a byte string given as a list of byte terms (concrete ints or z3 Int terms), fixed length"""

    __slots__ = ("items",)

    def __init__(self, items):
        self.items = list(items)

    def __repr__(self):
        return f"SBytes({self.items})"

    def __bool__(self):
        raise NativeUseOfSymbol("bool(SBytes)")

    def __eq__(self, other):
        raise NativeUseOfSymbol("SBytes ==")

    __hash__ = object.__hash__


class SByteBuf(Sym):
    """a mutable byte buffer of symbolic length n (bytearray(n)): contents are not tracked, only the length and that every
    store is in range; bytes() of it is a byte string of the same symbolic length"""

    __slots__ = ("length", "frozen")

    def __init__(self, length, frozen=False):
        self.length = length
        self.frozen = frozen

    def __repr__(self):
        return f"SByteBuf(len={self.length})"

    def __bool__(self):
        raise NativeUseOfSymbol("bool(SByteBuf)")

    __hash__ = object.__hash__


# ---------------------------------------------------------------------------------------------
# helpers


def fresh_int(name="v"):
    return z3.Int(f"{name}!{next(_counter)}")


def fresh_bool(name="p"):
    return z3.Bool(f"{name}!{next(_counter)}")


def reset_counter():
    global _counter
    _counter = itertools.count()


def term(v):
    """z3 Int term of an int-like value"""
    if isinstance(v, SInt):
        return v.t
    if isinstance(v, SBool):
        return z3.If(v.t, z3.IntVal(1), z3.IntVal(0))
    if isinstance(v, bool):
        return z3.IntVal(1 if v else 0)
    if isinstance(v, int):
        return z3.IntVal(v)
    if z3.is_expr(v):
        return v
    raise TypeError(f"no int term for {v!r}")


def bterm(v):
    if isinstance(v, SBool):
        return v.t
    if isinstance(v, bool):
        return z3.BoolVal(v)
    if z3.is_expr(v):
        return v
    raise TypeError(f"no bool term for {v!r}")


def lift_int(t):
    """wrap a z3 int term; fold constants back to Python ints"""
    t = z3.simplify(t)
    if z3.is_int_value(t):
        return t.as_long()
    return SInt(t)


def lift_bool(t):
    t = z3.simplify(t)
    if z3.is_true(t):
        return True
    if z3.is_false(t):
        return False
    return SBool(t)


def is_sym(v):
    return isinstance(v, Sym)


def is_intlike(v):
    return isinstance(v, (SInt, SBool)) or (isinstance(v, int))


def mask_runs(mask):
    """maximal runs of set bits of a non-negative int: list of (lo, length)"""
    runs = []
    i = 0
    while mask >> i:
        if (mask >> i) & 1:
            lo = i
            while (mask >> i) & 1:
                i += 1
            runs.append((lo, i - lo))
        else:
            i += 1
    return runs


def and_mask(t, mask):
    """x & mask for a non-negative concrete mask, exact for every integer x (two's complement)"""
    if mask == 0:
        return z3.IntVal(0)
    parts = []
    for lo, ln in mask_runs(mask):
        parts.append(((t / z3.IntVal(1 << lo)) % z3.IntVal(1 << ln)) * z3.IntVal(1 << lo))
    return z3.Sum(parts) if len(parts) > 1 else parts[0]


def bit_of(t, k):
    return (t / z3.IntVal(1 << k)) % z3.IntVal(2)


# uninterpreted operators (congruence only)
_UF = {}


def uf(name, arity=2, sort=None):
    key = (name, arity)
    if key not in _UF:
        s = z3.IntSort()
        _UF[key] = z3.Function(f"py_{name}", *([s] * arity), sort or s)
    return _UF[key]


def deep_symbolic(obj, _depth=0, _seen=None):
    """does obj (or something reachable through containers / instance dicts) hold a symbol?"""
    if isinstance(obj, Sym):
        return True
    if obj is None or isinstance(obj, (int, str, bytes, float, type, range)):
        return False
    if _depth > 8:
        return False
    if _seen is None:
        _seen = set()
    i = id(obj)
    if i in _seen:
        return False
    _seen.add(i)
    if isinstance(obj, (list, tuple, set, frozenset)):
        return any(deep_symbolic(x, _depth + 1, _seen) for x in obj)
    if isinstance(obj, dict):
        return any(
            deep_symbolic(k, _depth + 1, _seen) or deep_symbolic(v, _depth + 1, _seen)
            for k, v in obj.items()
        )
    if callable(obj) and not hasattr(obj, "__dict__"):
        return False
    import types

    if isinstance(obj, (types.FunctionType, types.BuiltinFunctionType, types.ModuleType, types.MethodType)):
        if isinstance(obj, types.MethodType):
            return deep_symbolic(obj.__self__, _depth + 1, _seen)
        return False
    d = getattr(obj, "__dict__", None)
    if isinstance(d, dict):
        for v in d.values():
            if deep_symbolic(v, _depth + 1, _seen):
                return True
    slots = getattr(type(obj), "__slots__", None)
    if slots:
        for s in slots if not isinstance(slots, str) else (slots,):
            try:
                if deep_symbolic(getattr(obj, s), _depth + 1, _seen):
                    return True
            except AttributeError:
                pass
    return False
