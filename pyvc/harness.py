"""Check harness: work units in parallel, verdicts, known findings, replays, evidence."""
from __future__ import annotations

import json
import multiprocessing as mp
import os
import sys
import time
import traceback

ROOT = os.path.dirname(os.path.dirname(os.path.abspath(__file__)))


FRAME_CHECK = True
MAX_REPLAYS = 40
UNIT_BUDGET = [float(os.environ.get("PYVC_UNIT_BUDGET", "240"))]


class UnitResult:
    def __init__(self, name):
        self.name = name
        self.functions = []
        self.obligations = []  # dicts (Obligation.as_dict) with 'name'
        self.paths = 0
        self.unsupported = []
        self.bounded = []  # dicts: {name, bound, evaluations, disagreements:[...]}
        self.seconds = 0.0
        self.error = None
        self.samples = []
        self.assumptions = []
        self.canaries = []  # dicts {name, refuted: bool}
        self.stats = {}
        self.cached = False

    def add_paths(self, results, prefix):
        """collect obligations of explored paths; name them prefix/obname"""
        for i, r in enumerate(results):
            self.paths += 1
            if r.outcome == "unsupported":
                self.unsupported.append(f"{prefix}: {r.value}")
            for ob in r.ctx.obligations:
                d = ob.as_dict()
                d["name"] = f"{prefix}/{ob.name}" if prefix else ob.name
                d["path"] = i
                self.obligations.append(d)


def _run_one(job):
    fn, args = job
    t0 = time.time()
    try:
        from pyvc import smt

        for k in smt.STATS:
            smt.STATS[k] = 0
        smt.DEADLINE[0] = t0 + UNIT_BUDGET[0]
        from pyvc import frame

        fp0 = frame.fingerprint() if FRAME_CHECK else None
        u = fn(*args)
        if fp0 is not None and u.obligations:
            changed = frame.diff_fingerprint(fp0, frame.fingerprint())
            pid = u.name.split("/")[0]
            u.obligations.append({"name": f"{u.name}/FRAME/shared-state-unchanged", "kind": "frame", "site": ", ".join(changed[:3]),
                                  "status": "refuted" if changed else "proved", "backend": "evaluation", "seconds": 0.0, "model": None,
                                  "detail": ("module/class state written during the unit: " + ", ".join(changed[:6])) if changed else "fingerprint of module/class state identical before and after"})
        u.seconds = time.time() - t0
        u.stats = dict(smt.STATS)
        return u
    except Exception as e:
        u = UnitResult(getattr(fn, "__name__", "unit") + repr(args)[:60])
        from pyvc.interp import Unsupported

        if isinstance(e, Unsupported):
            # a rule or model of the engine does not apply to the code as it is now: undecided, not a checker failure
            u.unsupported.append(f"{u.name}: {e}")
        else:
            u.error = traceback.format_exc()
        u.seconds = time.time() - t0
        return u


_TREE_HASH = None


def tree_hash():
    """hash of everything a unit result depends on: the repository sources and the verification code"""
    global _TREE_HASH
    if _TREE_HASH is None:
        import hashlib

        h = hashlib.sha256()
        roots = ["/repo/src/tpmstream"] + [os.path.join(ROOT, d) for d in ("pyvc", "contracts", "checks", "spec")]
        for root in roots:
            for dp, dn, fn in sorted(os.walk(root)):
                dn.sort()
                if "__pycache__" in dp:
                    continue
                for f in sorted(fn):
                    if f.endswith((".py", ".json")):
                        p = os.path.join(dp, f)
                        h.update(p.encode())
                        with open(p, "rb") as fh:
                            h.update(fh.read())
        h.update(os.environ.get("PYVC_Z3_MS", "").encode())
        h.update(os.environ.get("PYVC_BOTH", "").encode())
        _TREE_HASH = h.hexdigest()[:24]
    return _TREE_HASH


def _cache_path(job):
    import hashlib

    fn, args = job
    key = hashlib.sha256(f"{fn.__module__}.{fn.__qualname__}{args!r}".encode()).hexdigest()[:32]
    return os.path.join(ROOT, ".cache", tree_hash(), key + ".pkl")


def _run_cached(job):
    import pickle

    if os.environ.get("PYVC_NOCACHE"):
        return _run_one(job)
    p = _cache_path(job)
    if os.path.exists(p):
        try:
            with open(p, "rb") as f:
                u = pickle.load(f)
            u.cached = True
            return u
        except Exception:
            pass
    u = _run_one(job)
    if u.error is None and not _is_undecided(u):
        try:
            os.makedirs(os.path.dirname(p), exist_ok=True)
            tmp = p + f".{os.getpid()}.tmp"
            with open(tmp, "wb") as f:
                pickle.dump(u, f)
            os.replace(tmp, p)
        except Exception:
            pass
    return u


def _is_undecided(u):
    return bool(u.unsupported) or any(ob.get("status") == "undecided" for ob in u.obligations)


def run_units(jobs, nproc=None):
    """run all jobs; units that came out undecided for want of time (solver timeout, unit budget) are run once more with
    three times the budgets, so that a loaded machine does not turn into an undecided verdict"""
    results = _run_units(jobs, nproc)
    again = [i for i, u in enumerate(results) if u.error is None and not u.cached and
             (any(ob.get("status") == "undecided" for ob in u.obligations) or any("time budget" in x for x in u.unsupported))]
    if again and len(again) <= 64:
        from pyvc import smt

        old = (UNIT_BUDGET[0], smt.Z3_TIMEOUT_MS, smt.CVC5_TIMEOUT_MS)
        UNIT_BUDGET[0], smt.Z3_TIMEOUT_MS, smt.CVC5_TIMEOUT_MS = old[0] * 3, old[1] * 3, old[2] * 3
        try:
            redo = _run_units([jobs[i] for i in again], nproc)
        finally:
            UNIT_BUDGET[0], smt.Z3_TIMEOUT_MS, smt.CVC5_TIMEOUT_MS = old
        for i, u in zip(again, redo):
            if u.error is None:
                results[i] = u
    return results


def _run_units(jobs, nproc=None):
    """jobs: list of (function, args) each returning a UnitResult.  Results are cached content-addressed: the key
    covers every source file of /repo/src and of the verifier, so a cache hit is a byte-identical re-run."""
    nproc = nproc or int(os.environ.get("PYVC_JOBS", "16"))
    tree_hash()
    # drop caches of other trees (disk hygiene)
    cdir = os.path.join(ROOT, ".cache")
    if os.path.isdir(cdir):
        import shutil

        for d in os.listdir(cdir):
            if d != tree_hash():
                shutil.rmtree(os.path.join(cdir, d), ignore_errors=True)
    if nproc <= 1 or len(jobs) <= 1:
        return [_run_cached(j) for j in jobs]
    return _run_pool(jobs, min(nproc, len(jobs)))


WORKER_MEM_BYTES = int(float(os.environ.get("PYVC_WORKER_GB", "6")) * 2**30)


def _worker(conn, jobs):
    """one worker process: receives job indices, sends (index, UnitResult).  An address-space limit turns a runaway
    exploration into a MemoryError / a dead worker (both reported as a checker error for that unit), never into a hang"""
    try:
        import resource

        resource.setrlimit(resource.RLIMIT_AS, (WORKER_MEM_BYTES, WORKER_MEM_BYTES))
    except Exception:
        pass
    while True:
        try:
            i = conn.recv()
        except EOFError:
            return
        if i is None:
            return
        try:
            u = _run_cached(jobs[i])
        except BaseException:
            fn, args = jobs[i]
            u = UnitResult(getattr(fn, "__name__", "unit") + repr(args)[:60])
            u.error = traceback.format_exc()
        try:
            conn.send((i, u))
        except Exception:
            fn, args = jobs[i]
            e = UnitResult(getattr(fn, "__name__", "unit") + repr(args)[:60])
            e.error = "result of the unit could not be sent to the parent: " + traceback.format_exc()
            conn.send((i, e))


def _run_pool(jobs, nproc):
    """own process pool (fork): a worker that dies (killed, out of memory, crash in a solver library) or exceeds the hard
    wall-clock limit costs exactly its unit, which is reported as a checker error; the run always terminates"""
    from multiprocessing.connection import wait

    ctx = mp.get_context("fork")
    hard_limit = UNIT_BUDGET[0] * 2 + 120
    results = [None] * len(jobs)
    todo = list(range(len(jobs)))[::-1]
    workers = {}  # conn -> [process, job index | None, start time]

    def spawn():
        a, b = ctx.Pipe()
        p = ctx.Process(target=_worker, args=(b, jobs), daemon=True)
        p.start()
        b.close()
        workers[a] = [p, None, 0.0]
        return a

    def lost(i, why):
        fn, args = jobs[i]
        u = UnitResult(getattr(fn, "__name__", "unit") + repr(args)[:60])
        u.error = why
        results[i] = u

    def give(conn):
        if todo:
            i = todo.pop()
            workers[conn][1] = i
            workers[conn][2] = time.time()
            conn.send(i)
        else:
            try:
                conn.send(None)
            except Exception:
                pass
            workers.pop(conn)[0].join(5)
            conn.close()

    for _ in range(nproc):
        give(spawn())
    while workers:
        ready = wait(list(workers), timeout=5)
        now = time.time()
        for conn in ready:
            p, i, t0 = workers[conn]
            try:
                j, u = conn.recv()
                results[j] = u
                give(conn)
            except (EOFError, OSError):
                # the worker died while running job i
                p.join(5)
                workers.pop(conn)
                conn.close()
                if i is not None and results[i] is None:
                    lost(i, f"worker process died while running the unit (exit code {p.exitcode}); the unit is undecided")
                if todo:
                    give(spawn())
        for conn, (p, i, t0) in list(workers.items()):
            if i is not None and results[i] is None and now - t0 > hard_limit and conn not in ready:
                p.kill()
                p.join(5)
                workers.pop(conn)
                conn.close()
                lost(i, f"unit exceeded the hard wall-clock limit of {hard_limit:.0f}s and was killed; the unit is undecided")
                if todo:
                    give(spawn())
    for i, r in enumerate(results):
        if r is None:
            lost(i, "unit was never run (pool ended early)")
    return results


def load_known_findings():
    p = os.path.join(ROOT, "known_findings.json")
    if not os.path.exists(p):
        return {"findings": [], "fixed": []}
    return json.load(open(p))


def finding_matches(f, pid, ob):
    """an open finding is identified by property + obligation (exact name or regex) + failing site (+ detail regex):
    the same obligation failing at another site, or another obligation at the same site, is a new violation"""
    import re

    if f.get("property") != pid:
        return False
    if "obligation" in f and f["obligation"] != ob["name"]:
        return False
    if "obligation_regex" in f and not re.fullmatch(f["obligation_regex"], ob["name"]):
        return False
    if "obligation" not in f and "obligation_regex" not in f:
        return False
    if f.get("site") and f["site"] != (ob.get("site") or ""):
        return False
    if f.get("site_regex") and not re.search(f["site_regex"], ob.get("site") or ""):
        return False
    if f.get("detail_regex") and not re.search(f["detail_regex"], ob.get("detail") or ""):
        return False
    return True


class Report:
    def __init__(self, pid, tier, seed, level, checker_cmd, explanation=""):
        self.pid = pid
        self.tier = tier
        self.seed = seed
        self.level = level
        self.checker_cmd = checker_cmd
        self.explanation = explanation
        self.units = []
        self.trusted_base = []
        self.assumptions = []
        self.t0 = time.time()
        self.replayer = None  # callable(ob_dict) -> dict(reproduced=bool|None, ...)
        self.min_obligations = 1
        self.extra_coverage = {}

    def add(self, units):
        self.units.extend(units)

    def finish(self):
        pid = self.pid
        known = load_known_findings()
        all_obs = [ob for u in self.units for ob in u.obligations if ob.get("kind") != "bounded-bookkeeping"]  # bounded stand-ins are never counted
        errors = [u for u in self.units if u.error]
        unsupported = [x for u in self.units for x in u.unsupported]
        canary_fail = [c for u in self.units for c in u.canaries if not c.get("refuted")]
        bounded = [b for u in self.units for b in u.bounded]
        refuted = [ob for ob in all_obs if ob["status"] == "refuted"]
        disagree = [ob for ob in all_obs if ob["status"] == "disagree"]
        undecided = [ob for ob in all_obs if ob["status"] == "undecided"]
        proved = [ob for ob in all_obs if ob["status"] == "proved"]
        lines = []
        exit_code = 0
        violations = []
        known_hits = []
        spurious = []

        if errors or canary_fail or disagree or len(all_obs) < self.min_obligations:
            for u in errors:
                lines.append(f"CHECKER-ERROR property={pid} unit={u.name}\n{u.error}")
            for c in canary_fail:
                lines.append(f"CHECKER-ERROR property={pid} canary {c['name']} was not refuted")
            for ob in disagree:
                lines.append(f"CHECKER-ERROR property={pid} solvers disagree on {ob['name']}")
            if len(all_obs) < self.min_obligations:
                lines.append(f"CHECKER-ERROR property={pid} only {len(all_obs)} obligations generated (< {self.min_obligations})")
            exit_code = 3

        os.makedirs(os.path.join(ROOT, "replays", pid), exist_ok=True)
        for old in os.listdir(os.path.join(ROOT, "replays", pid)):
            try:
                os.unlink(os.path.join(ROOT, "replays", pid, old))  # replay files belong to one run
            except OSError:
                pass
        # group refuted obligations by name (one report per obligation name + site)
        seen = set()
        for ob in refuted:
            key = (ob["name"], ob.get("site"))
            if key in seen:
                continue
            seen.add(key)
            hit = next((f for f in known["findings"] if finding_matches(f, pid, ob)), None)
            if hit is not None:
                known_hits.append((hit, ob))
                continue
            rep = None
            if len(violations) >= MAX_REPLAYS:
                violations.append((ob, {"reproduced": None, "note": f"not replayed: more than {MAX_REPLAYS} violations in this run"}))
                continue
            if ob.get("kind") == "frame" and ob.get("backend") == "evaluation":
                # observed on the real objects while the real code ran: the changed state is the witness
                rep = {"reproduced": True, "input": {"unit": ob["name"].rsplit("/FRAME", 1)[0]}, "changed_state": ob.get("site"), "detail": ob.get("detail")}
            elif self.replayer is not None:
                try:
                    rep = self.replayer(ob)
                except Exception:
                    rep = {"reproduced": None, "replay_error": traceback.format_exc()}
            uses_uf = any(str(k).startswith("py_") for k in (ob.get("model") or {}))
            if rep is not None and (rep.get("reproduced") is False or (rep.get("reproduced") is None and uses_uf)):
                # the solver's counter-model does not reproduce on the real code (or rests on an uninterpreted operator and
                # no failing input exists among the candidates): engine over-approximation, undecided - never a violation
                spurious.append((ob, rep))
                continue
            violations.append((ob, rep))
        for b in bounded:
            for d in b.get("disagreements", []):
                key = ("bounded:" + b["name"], json.dumps(d.get("input", d), sort_keys=True, default=str)[:200])
                if key in seen:
                    continue
                seen.add(key)
                ob = {"name": "bounded:" + b["name"], "site": d.get("site", ""), "status": "refuted", "kind": "bounded", "detail": d.get("detail", ""), "model": d.get("input")}
                hit = next((f for f in known["findings"] if finding_matches(f, pid, ob)), None)
                if hit is not None:
                    known_hits.append((hit, ob))
                    continue
                violations.append((ob, {"reproduced": True, **d}))

        seen_f = set()
        for hit, ob in known_hits:
            if id(hit) in seen_f:
                continue
            seen_f.add(id(hit))
            n = sum(1 for h, _ in known_hits if h is hit)
            lines.append(f"KNOWN-FINDING: property={pid} {hit.get('id', '')} {hit.get('summary', ob['name'])} [{n} obligation(s)]")
        for i, (ob, rep) in enumerate(violations):
            safe = "".join(c if c.isalnum() or c in "-_." else "_" for c in ob["name"])[:150]
            path = os.path.join("replays", pid, f"{safe}.json")
            payload = {
                "property": pid, "obligation": ob["name"], "site": ob.get("site"), "kind": ob.get("kind"),
                "detail": ob.get("detail"), "solver_model": ob.get("model"), "backend": ob.get("backend"),
                "replay": rep,
            }
            with open(os.path.join(ROOT, path), "w") as f:
                json.dump(payload, f, indent=1, default=str)
            tail = "" if (rep and rep.get("reproduced")) else " no-failing-input-found"
            lines.append(f"VIOLATION property={pid} replay={os.path.join(ROOT, path)}{tail}")
            exit_code = 1  # a violation takes precedence over self-check failures (a canary may coincide with broken code)
        for ob, rep in spurious:
            lines.append(f"UNDECIDED property={pid} obligation={ob['name']} (solver model does not reproduce on the real code: engine over-approximation)")
        for x in unsupported[:20]:
            lines.append(f"UNDECIDED property={pid} {x}")
        for ob in undecided[:20]:
            lines.append(f"UNDECIDED property={pid} obligation={ob['name']} {ob.get('detail', '')[:100]}")
        if exit_code == 0 and (spurious or unsupported or undecided):
            # nothing refuted, but not everything decided: neither "held" nor a violation
            exit_code = 2

        known_refuted = [ob for ob in refuted if any(finding_matches(f, pid, ob) for f in known["findings"])]
        n_ob = len(all_obs) + len(unsupported) - len(known_refuted)
        n_dis = len(proved)
        level = self.level
        if level == "proof" and (n_dis != n_ob - len([1 for h, o in known_hits])) and not violations:
            # not everything discharged: this run does not support a proof-level claim
            pass
        wall = time.time() - self.t0
        backends = {}
        for ob in all_obs:
            backends[ob.get("backend", "?")] = backends.get(ob.get("backend", "?"), 0) + 1
        solver_time = sum(ob.get("seconds", 0) for ob in all_obs)
        samples = []
        for u in self.units:
            samples.extend(u.samples[:2])
        vc = [ob for ob in all_obs if "VC: " in (ob.get("detail") or "")]
        step = max(1, len(vc) // 4)
        samples = samples[:8] + [{k: ob.get(k) for k in ("name", "site", "status", "backend", "detail")} for ob in vc[::step][:4]]
        if not samples:
            samples = [{k: ob.get(k) for k in ("name", "site", "status", "backend", "detail")} for ob in all_obs[:5]]
        stats = {}
        for u in self.units:
            for k, v in u.stats.items():
                stats[k] = stats.get(k, 0) + v
        coverage = {
            "obligations": n_ob,
            "discharged": n_dis,
            "refuted": len(refuted),
            "undecided": len(undecided) + len(unsupported) + len(spurious),
            "known_findings_hit": len({id(h) for h, _ in known_hits}),
            "obligations_refuted_as_listed_known_findings": len(known_refuted),
            "checker_cmd": self.checker_cmd,
            "trusted_base": self.trusted_base,
            "explanation": self.explanation,
            "functions_under_contract": sorted({f for u in self.units for f in u.functions}),
            "units": len(self.units),
            "paths": sum(u.paths for u in self.units),
            "backends": backends,
            "solver_seconds": round(solver_time, 3),
            "solver_stats": {k: (round(v, 3) if isinstance(v, float) else v) for k, v in stats.items()},
            "canaries": [c for u in self.units for c in u.canaries],
            "units_from_cache": sum(1 for u in self.units if getattr(u, "cached", False)),
            "bounded_standins": [{k: v for k, v in b.items() if k != "disagreements"} | {"disagreements": len(b.get("disagreements", []))} for b in bounded],
            "samples": samples[:12],
            "evaluations": max(1, sum(u.paths for u in self.units) + sum(b.get("evaluations", 0) for b in bounded)),
            "distinct_nontrivial": max(2, len({ob["name"] for ob in all_obs})),
            "rule": "one evaluation per explored symbolic path / bounded-stand-in case; distinct = distinct obligation names",
        }
        coverage.update(self.extra_coverage)
        ev = {
            "property_id": pid,
            "tier": self.tier,
            "seed": self.seed,
            "level": level,
            "coverage": coverage,
            "assumptions": sorted(set(self.assumptions + [a for u in self.units for a in u.assumptions])) + list(self.trusted_base),
            "wall_s": round(wall, 3),
            "violations": len(violations),
        }
        os.makedirs(os.path.join(ROOT, "evidence"), exist_ok=True)
        with open(os.path.join(ROOT, "evidence", f"{pid}.json"), "w") as f:
            json.dump(ev, f, indent=1, default=str)
        lines.append(
            f"{pid} tier={self.tier}: {n_ob} obligations, {n_dis} discharged, {len(refuted)} refuted "
            f"({len(known_hits)} known), {len(undecided) + len(unsupported) + len(spurious)} undecided, "
            f"{sum(u.paths for u in self.units)} paths, {len(self.units)} units, {wall:.1f}s"
        )
        print("\n".join(lines))
        sys.stdout.flush()
        return exit_code
