"""Work-unit groups of the decoder core, shared by C01, C03, C04, C06, C07, C08 (each property's check runs the
dependency closure of its own argument and keeps the obligations that carry it)."""
from __future__ import annotations

import itertools

from checks import leaf, walkers as W
from checks.common import layout


def all_area_keys():
    L0 = layout()
    out = []
    for ccn in sorted(L0["commands"]):
        for table in ("cmd_handles", "cmd_params", "rsp_handles", "rsp_params"):
            out.append(f"area:{table}:{ccn}")
    return out


def chunks(xs, n):
    return [xs[i:i + n] for i in range(0, len(xs), n)]


def g_leaf(modes, deep=2, types=None):
    return leaf.leaf_jobs("quick", types=types, modes=modes, max_regions=deep)


def g_region(modes, tier="quick"):
    return [j for j in leaf.region_jobs(tier) if j[1][-1] in modes]


def g_structs(modes):
    L0 = layout()
    jobs = []
    for mode in modes:
        for n in sorted(L0["structs"]):
            jobs.append((W.unit_tpms, (n, mode)))
        for k in all_area_keys():
            jobs.append((W.unit_tpms, (k, mode)))
        for k in sorted(L0["encrypted"]):
            table, ccn = k.split(":")
            jobs.append((W.unit_tpms, (f"area:{table}:{ccn}", mode, 1, True)))
        for n in sorted(L0["tpm2b"]):
            jobs.append((W.unit_tpm2b, (n, mode)))
        for un, sn in W.union_parents():
            jobs.append((W.unit_tpmu, (un, sn, mode)))
    return jobs


def g_encrypt_any(modes):
    """parameter areas whose first parameter is not size-prefixed, decoded with the encryption flag (C06: must not crash)"""
    L0 = layout()
    jobs = []
    for mode in modes:
        for ccn in sorted(L0["commands"]):
            for table in ("cmd_params", "rsp_params"):
                if f"{table}:{ccn}" not in L0["encrypted"]:
                    jobs.append((unit_encrypt_other, (f"area:{table}:{ccn}", mode)))
    return jobs


def unit_encrypt_other(key, mode):
    """process_tpms on a parameter area that has no size-prefixed first parameter, with parameter_encryption=True"""
    import z3
    from pyvc.explore import explore, drive_coroutine
    from pyvc.harness import UnitResult
    from pyvc.interp import Interp, run_sync

    L0 = layout()
    _, table, ccn = key.split(":")
    T = W.registry()[1][(table, ccn)]
    label = f"WALK/tpms/{key}/encrypted-without-tpm2b/{mode}"
    u = UnitResult(label)
    u.functions = ["tpmstream.io.binary.marshal:process_tpms", "tpmstream.spec.commands.params_common:TPMS_PARAMS.encrypted"]
    stubs = W.walker_stubs(W.ProcessContract(L0["primitives"]))
    path = W.base_path()

    def run(ctx):
        regs, L = W.enclosing(ctx, 1)
        I = Interp(ctx, stubs=stubs)
        igen = run_sync(I.call(W.M().process_tpms, (T, path), {"size_constraints": L, "parameter_encryption": True, "abort_on_error": mode == "strict"}))
        outcome = drive_coroutine(ctx, igen)
        if outcome[0] == "raise" and isinstance(outcome[1].exc, W.INTERNAL):
            ctx.record("no-internal-error", False, "safety", outcome[1].site or "", detail=repr(outcome[1].exc)[:200])
        else:
            ctx.record("no-internal-error", True, "safety")
        return outcome

    res = explore(run, max_paths=500)
    u.add_paths(res, label)
    return u


def g_arrays(modes):
    jobs = []
    for mode in modes:
        for e in W.list_types():
            jobs.append((W.unit_array, (e, mode)))
        for ck in ("0", "1", "3", "20", "64"):
            jobs.append((W.unit_array, ("BYTE", mode, False, ck)))
        for e in ("TPMS_AUTH_COMMAND", "TPMS_AUTH_RESPONSE"):
            jobs.append((W.unit_array, (e, mode, True)))
    return jobs


def g_dispatch(modes):
    L0 = layout()
    names = sorted(L0["primitives"]) + sorted(L0["tpm2b"]) + sorted(L0["unions"]) + sorted(L0["structs"]) + all_area_keys()
    names += [f"list[{e}]" for e in W.list_types()] + ["Command", "Response", "CommandResponseStream"]
    names = [n for n in names if n != "TPM2B_ENCRYPTED_PARAM" or True]
    jobs = [(W.unit_path, ())]
    for mode in modes:
        for ch in chunks(names, 60):
            jobs.append((W.unit_dispatch, (ch, mode)))
    return jobs


def g_frames(modes):
    L0 = layout()
    jobs = []
    for mode in modes:
        for ccn in sorted(L0["commands"]):
            jobs.append((W.unit_command, (ccn, mode)))
            jobs.append((W.unit_response, (ccn, mode, False)))
            if f"rsp_params:{ccn}" in L0["encrypted"]:
                jobs.append((W.unit_response, (ccn, mode, True)))
        jobs.append((W.unit_command, (None, mode, True)))
        jobs.append((W.unit_response, (None, mode, False)))
        jobs.append((W.unit_response, ("<absent>", mode, False)))
        jobs.append((W.unit_stream, (mode,)))
    # the contract of is_parameter_encryption used by the frame units is proved here (areas of 0..3 sessions)
    jobs += [(W.unit_is_parameter_encryption, (n,)) for n in range(4)]
    return jobs


def g_typed(which):
    from checks import c16

    names = sorted(t.__name__ for t in c16.prim_types())
    return [(c16.unit_class, (n, tuple(which))) for n in names]


def filter_units(units, keep):
    """keep(ob_name, ob) -> bool; drops the other obligations (units keep their unsupported lists)"""
    for u in units:
        u.obligations = [o for o in u.obligations if keep(o["name"], o)]
    return units


def sort_jobs(jobs):
    """heavier units first (better load balance)"""
    def weight(j):
        n = j[0].__name__
        return {"unit_command": 0, "unit_response": 1, "unit_class": 2, "unit_dispatch": 3}.get(n, 5)
    return sorted(jobs, key=weight)


def g_pump(modes):
    from checks import pump

    jobs = []
    for mode in modes:
        for t in ("Command", "CommandResponseStream"):
            jobs.append((pump.unit_pump, (mode, t)))
        jobs.append((pump.unit_pump, (mode, "Command", "custom")))
        jobs.append((pump.unit_pump, (mode, "Response")))
    return jobs


def unit_crosscheck(types, seed, n, modes=("strict",), mutations=0):
    """bounded end-to-end cross-check through Binary.marshal against the reference semantics (never counted as proof)"""
    import os, sys
    from pyvc.harness import ROOT, UnitResult
    sys.path.insert(0, os.path.join(ROOT, "spec"))
    import crosscheck as X

    u = UnitResult(f"XCHECK/{types[0]}..{types[-1]}")
    u.functions = ["tpmstream.io.binary.marshal:marshal (public API, end to end)"]
    total, bad = X.sweep(types, seed=seed, n=n, modes=modes, mutations=mutations)
    dis = []
    for b in bad[:5]:
        dis.append({"input": {"tpm_type": b["type"], "hex": b["input"], "command_code": b["command_code"], "parameter_encryption": b["enc"], "mode": b["mode"], "how_generated": b["label"]},
                    "detail": f"{b['what']}: {b['detail']}"[:500], "site": b["type"]})
    u.bounded.append({"name": f"end-to-end/{types[0]}..{types[-1]}", "bound": f"{n} generated well-formed encodings per type plus <=12 single faults each (size fields -1/+1/0, invalid leaf values, truncations, surplus); lists <= 3 elements, buffers <= 6 bytes; {mutations} byte-level mutants per well-formed encoding (strict mode); seed {seed}",
                      "evaluations": total, "disagreements": dis})
    u.obligations.append({"name": f"{u.name}/ran", "kind": "bounded-bookkeeping", "site": "", "status": "proved", "backend": "bookkeeping", "seconds": 0, "model": None, "detail": f"{total} inputs compared"})
    return u


def g_crosscheck(tier, seed, modes=("strict",), only_frames=False):
    L0 = layout()
    types = [] if only_frames else [t for t in sorted(L0["structs"]) + sorted(L0["tpm2b"]) if t != "TPM2B_ENCRYPTED_PARAM"] + ["UINT8", "INT16", "UINT32", "UINT64", "TPM_CC", "TPMI_YES_NO", "TPM_HANDLE"]
    n = 12 if tier == "thorough" else 2
    mut = 12 if tier == "thorough" else 2
    jobs = [(unit_crosscheck, (ch, seed, n, modes, mut)) for ch in chunks(types, 12)]
    nf = 400 if tier == "thorough" else 40
    for t in ("Command", "Response", "CommandResponseStream"):
        for k in range(4):
            jobs.append((unit_crosscheck, ([t], seed * 31 + k, nf // 4, modes, mut * 2)))
    return jobs


def unit_canaries():
    """deliberately wrong variants of the specs must be refuted (vacuity guard for the trace comparison machinery)"""
    from pyvc.harness import UnitResult
    from checks import leaf as Lf, walkers as Wk
    import z3

    u = UnitResult("CANARY/decoder")
    # (1) little-endian leaf spec
    orig = Lf.be_int
    try:
        Lf.be_int = lambda bs, signed: orig(list(reversed(bs)), signed)
        r = Lf.unit_leaf("UINT16", (), "strict")
    finally:
        Lf.be_int = orig
    u.canaries.append({"name": "leaf spec with little-endian integers", "refuted": any(o["status"] == "refuted" for o in r.obligations)})
    # (2) struct spec with the fields in reverse order
    L0 = layout()
    ent = L0["structs"]["TPMS_PCR_SELECTION"]
    saved = list(ent["fields"])
    try:
        ent["fields"] = [saved[1], saved[0], saved[2]]
        r = Wk.unit_tpms("TPMS_PCR_SELECTION", "strict")
    finally:
        ent["fields"] = saved
    u.canaries.append({"name": "struct spec with two fields swapped", "refuted": any(o["status"] == "refuted" for o in r.obligations)})
    # (3) TPM2B spec whose body is decoded with the wrong element type
    ent = L0["tpm2b"]["TPM2B_DIGEST"]
    saved = [dict(f) for f in ent["fields"]]
    try:
        ent["fields"][1]["type"] = "list[UINT16]"
        r = Wk.unit_tpm2b("TPM2B_DIGEST", "strict")
    finally:
        ent["fields"] = saved
    u.canaries.append({"name": "size-prefixed spec with the wrong body type", "refuted": any(o["status"] == "refuted" for o in r.obligations)})
    # (4) command spec with handle and parameter areas swapped
    ent = L0["commands"]["Create"]
    saved = (ent["cmd_handles"], ent["cmd_params"])
    try:
        import checks.walkers as W2
        reg, areas = W2.registry()
        a, b = areas[("cmd_handles", "Create")], areas[("cmd_params", "Create")]
        areas[("cmd_handles", "Create")], areas[("cmd_params", "Create")] = b, a
        r = Wk.unit_command("Create", "strict")
    finally:
        areas[("cmd_handles", "Create")], areas[("cmd_params", "Create")] = a, b
    u.canaries.append({"name": "command spec with handle and parameter areas swapped", "refuted": any(o["status"] == "refuted" for o in r.obligations)})
    u.obligations.append({"name": "CANARY/decoder/ran", "kind": "bounded-bookkeeping", "site": "", "status": "proved", "backend": "bookkeeping", "seconds": 0, "model": None, "detail": "4 canaries"})
    return u
