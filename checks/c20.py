"""C20 — the layout tables are coherent and equal to the pinned layout snapshot.

The tables are constant data: the contract is a representation invariant evaluated exhaustively on the
real imported classes (finite domain, complete), plus field-by-field equality of dump(tables) with
spec/layout.json.  No solver is involved; every comparison is one obligation.
"""
from __future__ import annotations

import dataclasses
import json
import os
import re

from pyvc.harness import ROOT, Report, UnitResult

FUNCTIONS = [
    "tpmstream.spec.commands:Command._type_maps", "tpmstream.spec.commands:Response._type_maps",
    "tpmstream.spec.commands.commands_handles:command_handle_types", "tpmstream.spec.commands.commands_params:command_param_types",
    "tpmstream.spec.commands.responses_handles:response_handle_types", "tpmstream.spec.commands.responses_params:response_param_types",
    "tpmstream.spec.structures:structures_types", "tpmstream.spec.structures.constants:TPM_CC",
]


def snake(name):
    """TPM_CC member name -> the upper-case snake form used in area class names"""
    s = re.sub(r"(?<=[a-z0-9])(?=[A-Z])", "_", name)
    s = re.sub(r"(?<=[A-Z])(?=[A-Z][a-z])", "_", s)
    return s.upper()


def ob(u, name, ok, detail="", site=""):
    u.obligations.append({"name": name, "kind": "table", "site": site, "status": "proved" if ok else "refuted",
                          "backend": "evaluation", "seconds": 0.0, "model": None, "detail": detail})


def is_list_t(t):
    return getattr(t, "__origin__", None) is list or t is list


def coherence():
    from tpmstream.spec.commands import Command, Response
    from tpmstream.spec.structures import structures_types
    from tpmstream.spec.structures.constants import TPM_CC

    import sys
    sys.path.insert(0, os.path.join(ROOT, "spec"))
    from dump_layout import allowed_items

    u = UnitResult("C20/coherence")
    u.functions = FUNCTIONS
    maps = {
        ("COMMAND", "HANDLES"): Command._type_maps["handles"],
        ("COMMAND", "PARAMS"): Command._type_maps["parameters"],
        ("RESPONSE", "HANDLES"): Response._type_maps["handles"],
        ("RESPONSE", "PARAMS"): Response._type_maps["parameters"],
    }
    ccs = list(TPM_CC)
    ob(u, "C20/CC/distinct-numbers", len({int(c) for c in ccs}) == len(ccs), f"{len(ccs)} command codes")
    ob(u, "C20/CC/distinct-names", len({c._name for c in ccs}) == len(ccs))
    all_area = []
    for (d, k), m in maps.items():
        keys = list(m.keys())
        ob(u, f"C20/MAP/{d}_{k}/keys-are-exactly-TPM_CC", sorted(int(x) for x in keys) == sorted(int(c) for c in ccs),
           f"{len(keys)} keys")
        for cc in ccs:
            present = cc in m
            ob(u, f"C20/MAP/{d}_{k}/{cc._name}/present", present)
            if not present:
                continue
            t = m[cc]
            all_area.append(((d, k, cc._name), t))
            want = f"TPMS_{d}_{k}_{snake(cc._name)}"
            ob(u, f"C20/MAP/{d}_{k}/{cc._name}/named-after-code", t.__name__ == want, f"class {t.__name__}, expected {want}",
               site=f"{t.__module__}:{t.__name__}")
            ob(u, f"C20/MAP/{d}_{k}/{cc._name}/is-dataclass", dataclasses.is_dataclass(t))
    ids = [id(t) for _, t in all_area]
    ob(u, "C20/MAP/area-classes-distinct", len(set(ids)) == len(ids), f"{len(ids)} entries, {len(set(ids))} distinct classes")
    names = [t.__name__ for _, t in all_area]
    dup = sorted({n for n in names if names.count(n) > 1})
    ob(u, "C20/MAP/area-class-names-distinct", not dup, f"duplicates: {dup}")
    # handle areas
    for (d, k, ccn), t in all_area:
        if k != "HANDLES":
            continue
        fs = dataclasses.fields(t)
        ob(u, f"C20/HANDLES/{d}/{ccn}/at-most-three", len(fs) <= 3, f"{len(fs)} fields")
        for f in fs:
            ft = f.type
            ok = hasattr(ft, "_int_size") and ft._int_size == 4 and not is_list_t(ft) and not ft._signed
            ob(u, f"C20/HANDLES/{d}/{ccn}/{f.name}/four-byte-handle", ok, f"type {getattr(ft, '__name__', ft)}")
    # structures: lists and unions
    struct_like = [t for t in structures_types if dataclasses.is_dataclass(t) and not hasattr(t, "_selected_by")]
    struct_like += [t for _, t in all_area]
    used_unions = set()
    for t in struct_like:
        fs = dataclasses.fields(t)
        tn = t.__name__
        sel = getattr(t, "_selectors", {})
        for i, f in enumerate(fs):
            if is_list_t(f.type):
                prev = fs[i - 1] if i > 0 else None
                ok = prev is not None and hasattr(prev.type, "_int_size") and not prev.type._signed
                ob(u, f"C20/LIST/{tn}/{f.name}/directly-follows-unsigned-count", ok,
                   f"previous field: {prev.name if prev else None}: {getattr(getattr(prev, 'type', None), '__name__', None)}")
                ob(u, f"C20/LIST/{tn}/{f.name}/one-element-type", len(getattr(f.type, "__args__", ())) == 1)
            if hasattr(f.type, "_selected_by"):
                used_unions.add(f.type)
                ok = f.name in sel
                ob(u, f"C20/UNION/{tn}/{f.name}/has-selector", ok)
                if not ok:
                    continue
                sname = sel[f.name]
                idx = [j for j, g in enumerate(fs) if g.name == sname]
                ob(u, f"C20/UNION/{tn}/{f.name}/selector-is-earlier-field", bool(idx) and idx[0] < i, f"selector {sname}")
                if not idx:
                    continue
                st = fs[idx[0]].type
                ob(u, f"C20/UNION/{tn}/{f.name}/selector-is-primitive", hasattr(st, "_int_size"))
                if not hasattr(st, "_int_size"):
                    continue
                sb = f.type._selected_by
                member_names = {m.name for m in dataclasses.fields(f.type)}
                ob(u, f"C20/UNION/{tn}/{f.name}/selected_by-names-are-members", set(sb.keys()) <= member_names,
                   f"{sorted(set(sb.keys()) - member_names)}")
                values = [v for v in sb.values() if v is not None and not isinstance(v, type)]
                fallback = any(v is None for v in sb.values())
                for item in allowed_items(st._valid_values):
                    if "point" in item:
                        ok = fallback or any(int(v) == item["point"] for v in values)
                        ob(u, f"C20/UNION/{tn}/{f.name}/value-{item['point']:#x}-selects-a-member", ok,
                           f"{item.get('owner')}.{item.get('name')}")
                    else:
                        ob(u, f"C20/UNION/{tn}/{f.name}/range-{item['range'][0]:#x}-{item['range'][1]:#x}-selects-a-member", fallback)
        for name in sel:
            ob(u, f"C20/UNION/{tn}/{name}/selector-entry-names-a-field", any(f.name == name for f in fs))
    for ut in sorted(used_unions, key=lambda t: t.__name__):
        for m in dataclasses.fields(ut):
            if is_list_t(m.type):
                ls = getattr(ut, "_list_size", {})
                ok = m.name in ls and isinstance(ls[m.name], int) and ls[m.name] >= 0
                ob(u, f"C20/UNION-LIST/{ut.__name__}/{m.name}/has-fixed-length", ok)
    # every field's type object is the registered class of that name: the layout is pinned per class *name*, so a field that
    # carries a look-alike (a derived or patched copy with the same name) would escape the pinned layout
    from tpmstream.spec import all_types
    registry = {}
    for t in list(all_types) + list(structures_types) + [t for _, t in all_area]:
        registry.setdefault(t.__name__, t)
    for t in struct_like + sorted(used_unions, key=lambda t: t.__name__):
        bad = []
        for f in dataclasses.fields(t):
            ft = f.type.__args__[0] if is_list_t(f.type) else f.type
            if ft is None or not isinstance(ft, type):
                continue
            reg = registry.get(ft.__name__)
            if reg is None:
                bad.append(f"{f.name}: {ft.__name__} is not a registered type")
            elif reg is not ft:
                bad.append(f"{f.name}: {ft.__name__} is a different class object than the registered {reg.__module__}.{reg.__name__}")
        ob(u, f"C20/FIELD-TYPES/{t.__name__}/are-the-registered-classes", not bad, "; ".join(bad[:3]), site=f"{t.__module__}:{t.__name__}")
    # acyclic type graph
    graph = {}
    def succ(t):
        out = []
        if dataclasses.is_dataclass(t):
            for f in dataclasses.fields(t):
                ft = f.type
                if is_list_t(ft):
                    ft = ft.__args__[0]
                if ft is not None and dataclasses.is_dataclass(ft):
                    out.append(ft)
        return out
    state = {}
    cyc = []
    depth = {}
    def dfs(t, stack):
        if state.get(t) == 2:
            return depth[t]
        if state.get(t) == 1:
            cyc.append([x.__name__ for x in stack] + [t.__name__])
            return 0
        state[t] = 1
        d = 0
        for s in succ(t):
            d = max(d, 1 + dfs(s, stack + [t]))
        state[t] = 2
        depth[t] = d
        return d
    maxd = 0
    for t in struct_like + [x for x in structures_types if dataclasses.is_dataclass(x)]:
        maxd = max(maxd, dfs(t, []))
    ob(u, "C20/GRAPH/acyclic", not cyc, f"cycles: {cyc[:3]}; max depth {maxd}")
    # member names of named ranges: '<base><sep><offset from the range start, zero-padded hex>' for every value of every range
    from tpmstream.spec.common.values import NamedRange
    seen_ranges = set()
    for t in structures_types:
        if not hasattr(t, "_int_size"):
            continue
        for v in getattr(t, "_valid_values")._values:
            members = list(v) if isinstance(v, type) and hasattr(v, "class_iter") else [v]
            cands = [m for m in ([v] if isinstance(v, NamedRange) else []) ]
            if isinstance(v, type) and hasattr(v, "class_iter"):
                import inspect
                from tpmstream.spec.common.values import _is_public_non_funtion_attr
                cands += [a for n, a in inspect.getmembers(v) if _is_public_non_funtion_attr(n, a) and isinstance(a, NamedRange)]
            for r in cands:
                if id(r) in seen_ranges:
                    continue
                seen_ranges.add(id(r))
                from dump_layout import range_info
                ri = range_info(r)  # observable interval and naming parameters (pinned against layout.json by C20/EQ)
                r_start, r_end = ri["range"]
                width = r_end - r_start
                points = range(r_start, r_end) if width <= 4096 else [r_start, r_start + 1, r_start + 0x10, r_start + 0xFF, r_start + width // 2, r_end - 2, r_end - 1]
                bad = []
                for n in points:
                    m = r.by_number(n)
                    want = f"{ri['base']}{ri['sep']}{n - r_start:0{ri['nibbles']}x}"
                    if getattr(m, "_name", None) != want or int(getattr(m, "_value", -1)) != n:
                        bad.append(f"{n:#x}: {getattr(m, '_name', m)!r} expected {want!r}")
                for n in (r_start - 1, r_end):
                    if n in r:
                        bad.append(f"{n:#x} is accepted although it lies outside the block")
                ob(u, f"C20/RANGE-NAMES/{ri['owner']}.{ri['base']}", not bad, "; ".join(bad[:3]) or f"{len(points)} values", site=f"values.py:NamedRange.by_number")
    u.samples = [{"obligation": o["name"], "detail": o["detail"]} for o in u.obligations[:3]]
    return u


def diff(a, b, path, out):
    if type(a) != type(b):
        out.append((path, f"pinned {a!r} vs now {b!r}"))
        return 1
    if isinstance(a, dict):
        n = 0
        for k in sorted(set(a) | set(b)):
            if k not in a:
                out.append((f"{path}/{k}", f"not in pinned layout: now {json.dumps(b[k])[:160]}"))
                n += 1
            elif k not in b:
                out.append((f"{path}/{k}", f"missing now; pinned {json.dumps(a[k])[:160]}"))
                n += 1
            else:
                n += diff(a[k], b[k], f"{path}/{k}", out)
        return n
    if isinstance(a, list):
        if len(a) != len(b):
            out.append((path, f"length pinned {len(a)} vs now {len(b)}: pinned {json.dumps(a)[:200]} now {json.dumps(b)[:200]}"))
            return 1
        n = 0
        for i, (x, y) in enumerate(zip(a, b)):
            n += diff(x, y, f"{path}[{i}]", out)
        return n
    if a != b:
        out.append((path, f"pinned {a!r} vs now {b!r}"))
        return 1
    return 0


def count_leaves(a):
    if isinstance(a, dict):
        return sum(count_leaves(v) for v in a.values())
    if isinstance(a, list):
        return sum(count_leaves(v) for v in a) or 1
    return 1


def equality():
    import sys
    sys.path.insert(0, os.path.join(ROOT, "spec"))
    import dump_layout

    u = UnitResult("C20/equals-pinned-layout")
    u.functions = FUNCTIONS
    now = json.loads(json.dumps(dump_layout.dump(), sort_keys=True))
    pinned = json.load(open(os.path.join(ROOT, "spec", "layout.json")))
    # one obligation per top-level entry (type / command / table); failing leaves are listed in the detail
    for section in sorted(set(pinned) | set(now)):
        a, b = pinned.get(section), now.get(section)
        if isinstance(a, dict) and isinstance(b, dict):
            for k in sorted(set(a) | set(b)):
                out = []
                if k not in a:
                    out.append((k, "not in the pinned layout"))
                elif k not in b:
                    out.append((k, "missing from the current tables"))
                else:
                    diff(a[k], b[k], "", out)
                ob(u, f"C20/EQ/{section}/{k}", not out, "; ".join(f"{p}: {m}" for p, m in out[:4]),
                   site=f"layout.json:{section}/{k}")
        else:
            out = []
            diff(a, b, "", out)
            ob(u, f"C20/EQ/{section}", not out, "; ".join(f"{p}: {m}" for p, m in out[:4]), site=f"layout.json:{section}")
    u.stats = {"leaves_compared": count_leaves(pinned)}
    u.samples = [{"obligation": "C20/EQ/structs/TPMT_PUBLIC", "pinned": pinned["structs"].get("TPMT_PUBLIC")}]
    return u


def replayer(obd):
    # table obligations are evaluated on the real tables: the failing entry is the witness
    return {"reproduced": True, "input": obd["name"], "detail": obd.get("detail")}


def run(tier, seed, only=None):
    rep = Report("C20", tier, seed, "proof", "./check C20 (exhaustive evaluation of the table invariant on the imported classes; dump == spec/layout.json)",
                 explanation="finite representation invariant over constant tables, evaluated exhaustively; equality with the pinned snapshot entry by entry")
    rep.trusted_base = ["CPython import of tpmstream.spec", "spec/dump_layout.py reads dataclasses.fields and class attributes faithfully",
                        "spec/layout.json is the pinned layout (dumped from the pinned tree after the F14 repair; reviewed against TPM 2.0 Part 2 by sampling only)"]
    rep.assumptions = ["behavioural half (decoding follows the tables) is C01"]
    rep.replayer = replayer
    units = [coherence(), equality()]
    rep.add(units)
    rep.extra_coverage = {"exhaustive": True}
    rep.min_obligations = 1000
    return rep.finish()
