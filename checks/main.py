"""entry point: ./check <ID> [--tier quick|thorough] [--replay FILE]"""
import argparse
import importlib
import os
import sys
import traceback


def replay_file(pid, mod, args):
    """re-establish a recorded violation on the current tree: a recorded concrete decoder input is run through the real
    decoder and compared with the reference semantics again; otherwise the check is re-run and the recorded obligation is
    looked up.  exit 1 = the violation is still there, 0 = it is gone"""
    import json
    import subprocess

    rec = json.load(open(args.replay))
    print(f"replay of {rec.get('obligation')} ({rec.get('site')})")
    rp = rec.get("replay") or {}
    inp = rp.get("input") if isinstance(rp, dict) else None
    if isinstance(inp, dict) and "hex" in inp and "tpm_type" in inp:
        sys.path.insert(0, os.path.join(os.path.dirname(os.path.dirname(os.path.abspath(__file__))), "spec"))
        import crosscheck as X

        r = X.compare(inp["tpm_type"], bytes.fromhex(inp["hex"]), inp.get("command_code"), bool(inp.get("parameter_encryption")), inp.get("mode", "strict"))
        print(f"input {inp['tpm_type']} {inp['hex']} mode={inp.get('mode', 'strict')}: " + ("real decoder deviates from the reference semantics: " + json.dumps(r, default=str)[:600] if r else "real decoder agrees with the reference semantics"))
        if r:
            print(f"VIOLATION property={pid} replay={os.path.abspath(args.replay)}")
            return 1
        return 0
    # no concrete decoder input recorded: run the check again and look the obligation up
    out = subprocess.run([sys.executable, "-m", "checks.main", pid, "--tier", args.tier], capture_output=True, text=True, env=dict(os.environ)).stdout
    name = "".join(c if c.isalnum() or c in "-_." else "_" for c in (rec.get("obligation") or ""))[:150]
    still = [l for l in out.splitlines() if l.startswith("VIOLATION") and name in l]
    print("\n".join(still) if still else "the recorded obligation is discharged on the current tree")
    return 1 if still else 0


def main():
    ap = argparse.ArgumentParser()
    ap.add_argument("pid")
    ap.add_argument("--tier", default=os.environ.get("VERIF_TIER", "quick"), choices=["quick", "thorough"])
    ap.add_argument("--replay")
    ap.add_argument("--only", default=None, help="substring filter on unit names (debugging)")
    args = ap.parse_args()
    seed = int(os.environ.get("VERIF_SEED", "0") or 0)
    if args.tier == "thorough":
        # every solver-decided obligation goes to both back ends (a disagreement is a checker error); larger unit budget
        os.environ.setdefault("PYVC_BOTH", "1")
        os.environ.setdefault("PYVC_UNIT_BUDGET", "1200")
    pid = args.pid.upper()
    try:
        mod = importlib.import_module(f"checks.{pid.lower()}")
    except ModuleNotFoundError:
        print(f"CHECKER-ERROR no check for {pid}")
        return 3
    try:
        if args.replay:
            return replay_file(pid, mod, args)
        return mod.run(args.tier, seed, only=args.only)
    except Exception:
        print(f"CHECKER-ERROR property={pid}\n{traceback.format_exc()}")
        return 3


if __name__ == "__main__":
    sys.exit(main())
