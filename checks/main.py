"""entry point: ./check <ID> [--tier quick|thorough] [--replay FILE]"""
import argparse
import importlib
import os
import sys
import traceback


def main():
    ap = argparse.ArgumentParser()
    ap.add_argument("pid")
    ap.add_argument("--tier", default=os.environ.get("VERIF_TIER", "quick"), choices=["quick", "thorough"])
    ap.add_argument("--replay")
    ap.add_argument("--only", default=None, help="substring filter on unit names (debugging)")
    args = ap.parse_args()
    seed = int(os.environ.get("VERIF_SEED", "0") or 0)
    if args.tier == "thorough":
        # every solver-decided obligation goes to both back ends (a disagreement is a checker error); larger unit budget
        os.environ.setdefault("PYVC_BOTH", "1")
        os.environ.setdefault("PYVC_UNIT_BUDGET", "1200")
    pid = args.pid.upper()
    try:
        mod = importlib.import_module(f"checks.{pid.lower()}")
    except ModuleNotFoundError:
        print(f"CHECKER-ERROR no check for {pid}")
        return 3
    try:
        if args.replay:
            return mod.replay_file(args.replay)
        return mod.run(args.tier, seed, only=args.only)
    except Exception:
        print(f"CHECKER-ERROR property={pid}\n{traceback.format_exc()}")
        return 3


if __name__ == "__main__":
    sys.exit(main())
