"""U1 — the byte pump `marshal()` against an abstract processor and an abstract byte source (DESIGN A.4).

The real marshal() is interpreted.  `process` is replaced by an abstract coroutine whose every `send` may answer
Need / Emit(event) / Done(obj) / Fail(error); `iter(buffer)` is an abstract source whose `next` either hands out a fresh
byte or is exhausted for good.  Both loops are handled by the invariant rule:

  ghost: pulled (successful next() calls), sent (bytes handed to the processor), exhausted (source ended)
  outer head:  event is None, and  first (pulled = sent = 0, byte None)  or  look-ahead (pulled = sent + 1, byte = that byte)
               or  depleted (pulled = sent, the processor's last answer was Need)
  inner head:  event is the pending answer; look-ahead (pulled = sent + 1) or depleted (pulled = sent)

Obligations: protocol (a byte is sent exactly when the processor asked), C10 (pulled <= sent + 1 at every yield; only
iter/next are applied to the buffer), yields exactly the Emits in order, C05 (Depleted with command_code on Need at end of
input, Superfluous with exactly the unread suffix on Done with bytes left, clean stream end only at a root event), C13
(bytes_remaining = unread suffix), C08 (Done on a byte send is accepted), C07 (warn mode wraps instead of raising)."""
from __future__ import annotations

import z3

from pyvc import sym as S
from pyvc.explore import explore
from pyvc.harness import UnitResult
from pyvc.interp import Interp, IGen, PyExc, PathEnd, Unsupported, run_sync, _Return
from checks.common import mod

FUNCS = ["tpmstream.io.binary.marshal:marshal"]
INTERNAL = (AssertionError, TypeError, KeyError, IndexError, RuntimeError, AttributeError, NameError, UnboundLocalError, StopIteration, ZeroDivisionError)


class AbsBytes(S.Sym):
    """bytes value: explicit prefix (byte terms) followed by the unread rest of the abstract source from position `frm`"""

    def __init__(self, prefix, frm, with_rest=True, limited=None):
        self.prefix = list(prefix)
        self.frm = frm
        self.with_rest = with_rest
        self.limited = limited  # a cap on the number of bytes taken from the rest (islice): the rest is not all of it

    def __repr__(self):
        return f"AbsBytes({self.prefix}, rest-from {self.frm})" if self.with_rest else f"AbsBytes({self.prefix})"

    def __add__(self, other):
        if isinstance(other, AbsBytes) and not self.with_rest:
            return AbsBytes(self.prefix + other.prefix, other.frm, with_rest=other.with_rest, limited=other.limited)
        if isinstance(other, (bytes, bytearray)) and not self.with_rest:
            return AbsBytes(self.prefix + list(other), self.frm, with_rest=False)
        return NotImplemented

    def __radd__(self, other):
        if isinstance(other, (bytes, bytearray)):
            return AbsBytes(list(other) + self.prefix, self.frm, with_rest=self.with_rest, limited=self.limited)
        return NotImplemented


class AbsSource:
    """abstract byte source: the only operations allowed on it are iter() and next(); anything else is recorded"""

    def __init__(self, ctx):
        self.ctx = ctx
        self.ops = []

    def __getitem__(self, k):
        self.ops.append("getitem")
        raise TypeError("'source' object is not subscriptable")

    def __len__(self):
        self.ops.append("len")
        raise TypeError("object of type 'source' has no len()")

    def __bytes__(self):
        self.ops.append("bytes")
        raise TypeError("cannot convert 'source' object to bytes")

    def __bool__(self):
        # the truth value of a byte source depends on what kind of object it is (an empty bytes object is false, an
        # exhausted iterator is true): testing it is an operation the decoder has no business applying
        self.ops.append("bool")
        return True


class AbsGenSource(AbsSource):
    """a source that is a generator (what every front-end hands in): it can also be closed, which loses its unread rest"""

    closed = False

    def close(self):
        self.ops.append("close")
        self.closed = True


class Ghost:
    def __init__(self, ctx):
        self.ctx = ctx
        self.pulled = z3.IntVal(0)
        self.sent = z3.IntVal(0)
        self.exhausted = False
        self.last = "start"  # kind of the processor's last answer: start | need | emit | done | fail
        self.yields = []
        self.answers = []  # (kind, payload) in order
        self.look = None  # the look-ahead byte term (pulled, not sent)
        self.root_len = 1  # length of the root path the caller asked for (the command code is its child "commandCode")


def mk_events(ctx, root_path):
    from tpmstream.common.event import MarshalEvent, WarningEvent
    from tpmstream.common.path import Path, PathNode
    from tpmstream.common.error import ConstraintViolatedError
    from tpmstream.spec.commands import Command
    from tpmstream.spec.structures.base_types import UINT8
    from tpmstream.spec.structures.constants import TPM_CC
    from contracts.decoder import TypedStub

    cc = TypedStub.make(TPM_CC, S.SInt(ctx.fresh_int("ccv", 0, 2**32 - 1)))
    cc0 = TypedStub.make(TPM_CC, S.SInt(ctx.fresh_int("ccv0", 0, 2**32 - 1)))
    return {
        "cc": MarshalEvent(Path(root_path / PathNode("commandCode")), TPM_CC, cc),
        "cc0": MarshalEvent(Path(root_path / PathNode("commandCode")), TPM_CC, cc0),  # a commandCode event of an earlier message
        "root": MarshalEvent(Path.from_string("."), Command, ...),
        "field": MarshalEvent(Path(root_path / PathNode("f")), UINT8, TypedStub.make(UINT8, S.SInt(ctx.fresh_int("fv", 0, 255)))),
        "struct": MarshalEvent(Path(root_path / PathNode("s")), Command, ...),
        "warning": WarningEvent(error=ConstraintViolatedError("w")),
    }


def unit_pump(mode, tpm_type_name="Command", root="default"):
    from tpmstream.common.path import Path, PathNode
    from tpmstream.common.error import ConstraintViolatedError
    from tpmstream.spec.commands import Command, CommandResponseStream

    M = mod("tpmstream.io.binary.marshal")
    label = f"PUMP/{tpm_type_name}/{mode}" + ("" if root == "default" else "/custom-root")
    u = UnitResult(label)
    u.functions = FUNCS
    strict = mode == "strict"
    from tpmstream.spec.commands import Response

    tpm_type = {"Command": Command, "CommandResponseStream": CommandResponseStream, "Response": Response}[tpm_type_name]
    site = "marshal.py:marshal"

    def run(ctx):
        G = Ghost(ctx)
        # the caller may place the decoded value anywhere in a path (root_path); what the pump recognises by path must follow
        root_path = Path(PathNode("")) if root == "default" else Path((PathNode("outer"), PathNode("msg", 3)))
        G.root_len = len(root_path)
        EV = mk_events(ctx, root_path)
        source = AbsSource(ctx) if ctx.fork([z3.BoolVal(True), z3.BoolVal(True)], "kind-of-source") == 0 else AbsGenSource(ctx)
        OBJ = object()
        state = {"proc_args": None, "fail_err": None}

        class Proc:
            pass

        proc = Proc()

        def process_stub(I, args, kwargs):
            state["proc_args"] = (args, kwargs)
            return proc
            yield

        def send_stub(I, args, kwargs):
            x = args[0]
            # protocol: a byte exactly when asked
            if G.last in ("start", "emit"):
                ctx.record("PROTOCOL/sends-None-to-fetch-the-next-answer", x is None, site=site, detail=f"sent {x!r} after {G.last}")
            elif G.last == "need":
                ok = isinstance(x, S.SInt) and G.look is not None and x.t.eq(G.look)
                ctx.record("PROTOCOL/sends-the-look-ahead-byte-when-asked", ok, site=site, detail=f"sent {x!r}, look-ahead {G.look!r}")
                G.sent = z3.simplify(G.sent + 1)
                G.look = None
            else:
                ctx.record("PROTOCOL/no-send-after-completion", False, site=site, detail=f"send after {G.last}")
            kinds = ["need", "emit:cc", "emit:root", "emit:field", "emit:struct", "emit:warning", "done", "fail"]
            k = kinds[ctx.fork([z3.BoolVal(True)] * len(kinds), "processor-answer")]
            if k == "need":
                G.last = "need"
                G.answers.append(("need", None))
                return None
            if k.startswith("emit:"):
                G.last = "emit"
                ev = EV[k[5:]]
                G.answers.append(("emit", ev))
                return ev
            if k == "done":
                G.last = "done"
                G.answers.append(("done", OBJ))
                raise PyExc(StopIteration((7, OBJ)), "processor")
            G.last = "fail"
            err = ConstraintViolatedError("abstract failure")
            state["fail_err"] = err
            G.answers.append(("fail", err))
            raise PyExc(err, "processor")
            yield

        def iter_model(I, args, kwargs):
            (b,) = args
            if b is source:
                source.ops.append("iter")
                return source
            return (yield from I.get_iter(b))

        def next_model(I, args, kwargs):
            it = args[0]
            if it is not source:
                return (yield from I.next_(it))
            source.ops.append("next")
            if G.exhausted:
                if len(args) > 1:
                    return args[1]
                raise PyExc(StopIteration(), "source")
            if ctx.fork([z3.BoolVal(True), z3.BoolVal(True)], "source") == 1:
                G.exhausted = True
                if len(args) > 1:
                    return args[1]
                raise PyExc(StopIteration(), "source")
            b = ctx.fresh_int("b", 0, 255)
            G.pulled = z3.simplify(G.pulled + 1)
            G.look = b
            return S.SInt(b)

        def chain_model(I, args, kwargs):
            # itertools.chain((byte,), buffer_iter): explicit prefix + unread rest of the source
            prefix = []
            rest = False
            for a in args:
                if a is source:
                    rest = True
                    source.ops.append("drain")
                else:
                    for x in (yield from I.iterate_all(a)):
                        prefix.append(x)
            return AbsBytes(prefix, G.pulled, with_rest=rest)

        def islice_model(I, args, kwargs):
            # itertools.islice(<chain over the source>, n): at most n bytes; of an unbounded rest that is not all of it
            if args and isinstance(args[0], AbsBytes) and len(args) == 2:
                a, n = args
                if a.limited is not None or not isinstance(n, int):
                    raise Unsupported("islice of a limited / symbolic length")
                if not a.with_rest or G.exhausted:
                    return AbsBytes(a.prefix[:n], a.frm, with_rest=False)
                return AbsBytes(a.prefix[:n], a.frm, with_rest=True, limited=max(n - len(a.prefix), 0))
            if args and args[0] is source:
                source.ops.append("drain")
                return AbsBytes([], G.pulled, with_rest=True, limited=args[1] if len(args) == 2 and isinstance(args[1], int) else -1)
            raise Unsupported("itertools.islice on this argument")
            yield

        def bytes_model(I, args, kwargs):
            if args and isinstance(args[0], AbsBytes):
                return args[0]
            if args and args[0] is source:
                source.ops.append("drain")
                return AbsBytes([], G.pulled, with_rest=True)
            if len(args) == 1 and isinstance(args[0], S.SInt):
                # bytes(n): n zero bytes - whatever n is, these are not the bytes of the input
                return AbsBytes([("zero-bytes", args[0])], G.pulled, with_rest=False)
            from pyvc import models as Mo
            return (yield from Mo.m_bytes(I, args, kwargs))

        def hexlify_model(I, args, kwargs):
            if args and isinstance(args[0], AbsBytes):
                return S.SStr([S.Opaque("hex-of-rest")])
            from pyvc import models as Mo
            return (yield from Mo.m_hexlify(I, args, kwargs))

        import binascii
        import itertools

        stubs = {M.process: process_stub, iter: iter_model, next: next_model, itertools.chain: chain_model, itertools.islice: islice_model, bytes: bytes_model, binascii.hexlify: hexlify_model}
        # proc.send is looked up as an attribute: give it a function the interpreter can stub
        def _send(self, x):
            raise RuntimeError("abstract")
        Proc.send = _send
        stubs[_send] = lambda I, args, kwargs: send_stub(I, args[1:], kwargs)

        loops = {("*", "while", 0): OuterLoop(G, EV, strict, site), ("*", "while", 1): InnerLoop(G, EV, strict, site)}
        I = Interp(ctx, stubs=stubs, loop_specs=loops)
        I.models_sym_method_hook = None
        kw = {"abort_on_error": strict}
        # (a response is decoded with a command code supplied by the caller; here one outside the table: whatever is wrong with
        # it is the processor's to report - with the bytes it has not consumed - not the pump's)
        cc_in = object() if tpm_type_name != "Response" else 0x20000123
        pe_in = object()
        if root != "default":
            kw["root_path"] = root_path
        igen = run_sync(I.call(M.marshal, (tpm_type, source), {"command_code": cc_in, "parameter_encryption": pe_in, **kw}))
        outcome = drive_pump(ctx, igen, G, site)
        # wiring of the processor
        pa = state["proc_args"]
        if pa is not None:
            a, k = pa
            ok = len(a) >= 1 and a[0] is tpm_type and k.get("path", a[1] if len(a) > 1 else None) == root_path and k.get("command_code") is cc_in and k.get("parameter_encryption") is pe_in and k.get("abort_on_error") is strict
            ctx.record("WIRING/processor-created-with-the-callers-arguments", ok, site=site)
        check_exit(ctx, G, EV, outcome, strict, tpm_type, state, site, OBJ)
        ctx.record("C10/only-iter-and-next-are-applied-to-the-buffer", all(o in ("iter", "next", "drain") for o in source.ops) and source.ops[:1] == ["iter"], site=site, detail=str(source.ops[:6]))
        ctx.record("FRAME/no-write-to-shared-state", not ctx.frame_writes, "frame", detail="; ".join(ctx.frame_writes[:3]))
        return outcome

    res = explore(run, max_paths=6000)
    u.add_paths(res, label)
    if res:
        u.samples.append({"unit": label, "paths": len(res), "outcomes": sorted({r.outcome for r in res})})
    return u


def drive_pump(ctx, igen, G, site):
    """consume the events marshal() yields; C10 obligation at every yield"""
    try:
        while True:
            y = igen.g.send(None)
            G.yields.append(y)
            ctx.oblige("C10/at-most-one-byte-pulled-beyond-the-bytes-handed-to-the-processor", G.pulled <= G.sent + 1, site=site)
    except StopIteration as e:
        return ("return", e.value)
    except PyExc as e:
        return ("raise", e)


def expected_cc(G, upto=None):
    """value of the last yielded ...commandCode event, or None"""
    cc = None
    for y in G.yields[:upto]:
        if type(y).__name__ == "MarshalEvent" and len(y.path) == G.root_len + 1 and y.path[-1].name == "commandCode":
            cc = y.value
    return cc


def rest_matches(br, G, include_look):
    """bytes_remaining must denote: [look-ahead byte if it is outstanding] ++ unread rest of the source"""
    if isinstance(br, AbsSource):
        # the iterator itself: its remaining content is the unread rest; correct iff no look-ahead byte is outstanding
        return include_look is None and not getattr(br, "closed", False)
    if isinstance(br, AbsBytes):
        want = [include_look] if include_look is not None else []
        if len(br.prefix) != len(want):
            return False
        for a, b in zip(br.prefix, want):
            if not (isinstance(a, S.SInt) and a.t.eq(b)):
                return False
        if br.limited is not None and not G.exhausted:
            return False  # only a bounded part of the unread rest
        return br.with_rest or G.exhausted
    if isinstance(br, (bytes, list, tuple)) and len(br) == 0:
        return include_look is None and G.exhausted
    return False


def check_exit(ctx, G, EV, outcome, strict, tpm_type, state, site, OBJ):
    """how marshal() ended must match the processor's last answer and the state of the source"""
    from tpmstream.spec.commands import CommandResponseStream

    emits = [p for k, p in G.answers if k == "emit"]
    last = G.last
    look = G.look  # outstanding look-ahead byte (pulled, never sent), None if none
    # (1) yields are exactly the Emits in order (the root event of a new message at the end of the input may be dropped for streams)
    ys = [y for y in G.yields]
    info_tail = [y for y in ys if not any(y is e for e in emits)]
    core = [y for y in ys if any(y is e for e in emits)]
    dropped_root = False
    if len(core) == len(emits) - 1 and emits and emits[-1] is EV["root"] and G.exhausted and outcome[0] == "return":
        dropped_root = True
        ok_order = all(a is b for a, b in zip(core, emits[:-1]))
    else:
        ok_order = len(core) == len(emits) and all(a is b for a, b in zip(core, emits))
    ctx.record("YIELD/exactly-the-processors-events-in-order", ok_order, site=site, detail=f"{len(core)} yielded of {len(emits)} answers")
    cc = expected_cc(G)

    def is_err(e, name):
        return type(e).__name__ == name

    def final_warning():
        return info_tail[-1].error if info_tail and type(info_tail[-1]).__name__ == "WarningEvent" else None

    if dropped_root:
        ctx.record("C05/clean-end-at-a-message-boundary-only-for-streams", tpm_type is CommandResponseStream, site=site,
                   detail=f"input of type {tpm_type.__name__} ended cleanly at a root event")
        return
    if last == "need":
        # the processor wants a byte: only legitimate way out is the end of the input
        err = outcome[1].exc if outcome[0] == "raise" else final_warning()
        ok = G.exhausted and err is not None and is_err(err, "InputStreamBytesDepletedError") and (outcome[0] == "raise") == strict
        ctx.record("C05/depleted-reported-when-input-ends-before-completion", ok, site=site, detail=f"outcome {outcome[0]} {type(err).__name__ if err else None}")
        if ok:
            ctx.record("C05/depleted-carries-the-command-code-decoded-so-far", err.command_code is cc, site=site, detail=f"{err.command_code!r} vs {cc!r}")
        return
    if last == "done":
        if look is None and G.exhausted:
            ok = outcome[0] == "return" and outcome[1] is OBJ and final_warning() is None
            ctx.record("C05/completion-at-end-of-input-is-accepted", ok, site=site, detail=f"outcome {outcome[0]} {outcome[1]!r}"[:200])
        else:
            err = outcome[1].exc if outcome[0] == "raise" else final_warning()
            ok = err is not None and is_err(err, "InputStreamSuperfluousBytesError") and (outcome[0] == "raise") == strict
            ctx.record("C05/superfluous-reported-when-bytes-remain-after-completion", ok, site=site, detail=f"outcome {outcome[0]} {type(err).__name__ if err else (type(outcome[1].exc).__name__ if outcome[0]=='raise' else None)}")
            if ok:
                ctx.record("C05/superfluous-carries-exactly-the-unread-suffix", rest_matches(err.bytes_remaining, G, look), site=site, detail=repr(err.bytes_remaining))
                ctx.record("C05/superfluous-carries-the-command-code-decoded-so-far", err.command_code is cc, site=site, detail=f"{err.command_code!r} vs {cc!r}; yields {[type(y).__name__ + str(getattr(y, 'path', '')) for y in G.yields]}")
            if not strict and ok:
                ctx.record("C05/warn-mode-still-returns-the-object", outcome[0] == "return" and outcome[1] is OBJ, site=site)
        return
    if last == "fail":
        err = state["fail_err"]
        ok = outcome[0] == "raise" and outcome[1].exc is err
        ctx.record("C13/constraint-error-propagates", ok, site=site, detail=f"outcome {outcome[0]}")
        if ok:
            ctx.record("C13/bytes_remaining-is-exactly-the-unread-suffix", rest_matches(err.bytes_remaining, G, look), site=site,
                       detail=f"bytes_remaining {err.bytes_remaining!r}; look-ahead outstanding: {look is not None}; source exhausted: {G.exhausted}")
        return
    ctx.record("EXIT/ends-only-on-need-done-or-fail", False, site=site, detail=f"marshal() ended ({outcome[0]}) while the processor's last answer was {last}")


# ---------------------------------------------------------------------------------------------
# loop rules for marshal()


def _havoc_command_code(ctx, frame, G, EV):
    """command_code local = None or the value of a commandCode event yielded earlier"""
    if ctx.fork([z3.BoolVal(True), z3.BoolVal(True)], "havoc-cc") == 0:
        frame.locals["command_code"] = None
    else:
        frame.locals["command_code"] = EV["cc0"].value
        G.yields.append(EV["cc0"])
        G.answers.append(("emit", EV["cc0"]))


class OuterLoop:
    """`while not buffer_depleted:`"""

    kind = "while"

    def __init__(self, G, EV, strict, site):
        self.G, self.EV, self.strict, self.site = G, EV, strict, site

    def run(self, I, node, frame):
        ctx, G = I.ctx, self.G
        # initial state satisfies the invariant (first case)?
        loc = frame.locals
        init_ok = loc.get("event") is None and loc.get("byte") is None and loc.get("buffer_depleted") is False and loc.get("command_code") is None
        ctx.record("INV/outer-holds-initially", init_ok, "loop", self.site)
        which = ctx.fork([z3.BoolVal(True)] * 3, "outer-loop")
        if which == 0:
            # first iteration from the real initial state
            pass
        elif which == 1:
            # a later iteration: look-ahead byte outstanding, processor asked for it
            k = ctx.fresh_int("sent0", 0)
            b = ctx.fresh_int("b", 0, 255)
            G.sent, G.pulled, G.look, G.last = k, z3.simplify(k + 1), b, "need"
            G.answers.append(("need", None))
            loc["byte"], loc["buffer_depleted"], loc["event"] = S.SInt(b), False, None
            _havoc_command_code(ctx, frame, G, self.EV)
        else:
            # exit: the input ended while the processor waits for a byte
            k = ctx.fresh_int("sent0", 0)
            G.sent, G.pulled, G.look, G.last, G.exhausted = k, k, None, "need", True
            G.answers.append(("need", None))
            loc["buffer_depleted"], loc["event"] = True, None
            loc["byte"] = S.SInt(ctx.fresh_int("stale", 0, 255)) if ctx.fork([z3.BoolVal(True), z3.BoolVal(True)], "stale-byte") == 0 else None
            _havoc_command_code(ctx, frame, G, self.EV)
            return
        c = yield from I.eval(node.test, frame)
        if not I.truth(c):
            ctx.record("INV/outer-guard-true-in-iteration-states", False, "loop", self.site)
            raise PathEnd("loop-iteration")
        yield from I.exec_block(node.body, frame)
        # back at the loop head: the invariant must hold again
        ok_event = loc.get("event") is None
        dep = loc.get("buffer_depleted")
        if dep is False:
            ok = ok_event and G.last == "need" and G.look is not None and isinstance(loc.get("byte"), S.SInt) and loc["byte"].t.eq(G.look)
            ctx.record("INV/outer-preserved", ok, "loop", self.site, detail=f"event {loc.get('event')!r} last {G.last} look {G.look!r}")
            ctx.oblige("INV/outer-preserved/pulled-is-sent-plus-one", G.pulled == G.sent + 1, "loop", self.site)
        else:
            ok = ok_event and G.last == "need" and G.look is None and G.exhausted
            ctx.record("INV/outer-preserved", ok, "loop", self.site, detail=f"event {loc.get('event')!r} last {G.last} look {G.look!r} exhausted {G.exhausted}")
            ctx.oblige("INV/outer-preserved/pulled-equals-sent", G.pulled == G.sent, "loop", self.site)
        raise PathEnd("loop-iteration")


class InnerLoop:
    """`while event is not None:`"""

    kind = "while"

    def __init__(self, G, EV, strict, site):
        self.G, self.EV, self.strict, self.site = G, EV, strict, site

    def run(self, I, node, frame):
        ctx, G = I.ctx, self.G
        loc = frame.locals
        # the state reached concretely after the send/next of this outer iteration is one instance of the inner invariant:
        # execute from it (first inner iteration), or from a havoc'd later state
        # the havoc'd case is independent of how this outer iteration began: explore it under one canonical prefix only
        canonical = all(d == 0 for d in ctx.taken)
        which = ctx.fork([z3.BoolVal(True)] * 2, "inner-loop") if canonical else 0
        if which == 1:
            # arbitrary later inner iteration: some event pending
            kinds = ["cc", "root", "field", "struct", "warning"]
            ev = self.EV[kinds[ctx.fork([z3.BoolVal(True)] * len(kinds), "pending-event")]]
            loc["event"] = ev
            G.last = "emit"
            # history so far is abstracted by the invariant "yielded = the processor's events so far, in order"
            G.answers.clear()
            G.yields.clear()
            _havoc_command_code(ctx, frame, G, self.EV)
            G.answers.append(("emit", ev))
            # source state: look-ahead outstanding or exhausted (both are possible in this loop)
            k = ctx.fresh_int("sent1", 0)
            if ctx.fork([z3.BoolVal(True), z3.BoolVal(True)], "inner-depleted") == 0:
                b = ctx.fresh_int("b", 0, 255)
                G.sent, G.pulled, G.look, G.exhausted = k, z3.simplify(k + 1), b, False
                loc["byte"], loc["buffer_depleted"] = S.SInt(b), False
            else:
                G.sent, G.pulled, G.look, G.exhausted = k, k, None, True
                loc["buffer_depleted"] = True
                loc["byte"] = S.SInt(ctx.fresh_int("stale", 0, 255))
        # run the loop for real from here; a processor answer `emit` leads to another iteration: cut there
        first = True
        while True:
            c = yield from I.eval(node.test, frame)
            if not I.truth(c):
                return
            if not first:
                # second time at the head with a pending event: that state is covered by the havoc'd case; check it is an instance
                ev = loc.get("event")
                ok = any(ev is e for k, e in self.EV.items() if k != "cc0")
                ctx.record("INV/inner-preserved", ok and G.last == "emit", "loop", self.site)
                if loc.get("buffer_depleted") is False:
                    ctx.oblige("INV/inner-preserved/pulled-is-sent-plus-one", G.pulled == G.sent + 1, "loop", self.site)
                else:
                    ctx.oblige("INV/inner-preserved/pulled-equals-sent", G.pulled == G.sent, "loop", self.site)
                raise PathEnd("loop-iteration")
            first = False
            yield from I.exec_block(node.body, frame)
