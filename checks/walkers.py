"""U4 — the type-directed walkers, verified modularly: the real process_tpms / process_tpm2b / process_tpmu /
process (dispatch) are interpreted for every concrete layout entry with `process` and the region methods replaced by
their contracts; the recorded trace must equal the one-level unfolding of the reference semantics over the pinned
layout (DESIGN §5 C01, A.3)."""
from __future__ import annotations

import dataclasses

import z3

from pyvc import sym as S
from pyvc.explore import explore, check_against_spec, drive_coroutine
from pyvc.harness import UnitResult
from pyvc.interp import Interp, PyExc, run_sync
from contracts.decoder import mk_region, mk_region_list, TypedStub, typed_int
from contracts.walker_stubs import ProcessContract, SET_CONSTRAINT, ASSERT_DONE, Opaque, is_list_t, is_parameter_encryption_stub, live_regions
from checks.common import layout, sym_equal, conj, mod
from checks.leaf import cmp_error, _eq, summ, INTERNAL

import sys, os
from pyvc.harness import ROOT
sys.path.insert(0, os.path.join(ROOT, "spec"))
from dump_layout import typeref  # noqa: E402

FUNCS = ["tpmstream.io.binary.marshal:process", "tpmstream.io.binary.marshal:process_tpms", "tpmstream.io.binary.marshal:process_tpm2b",
         "tpmstream.io.binary.marshal:process_tpmu", "tpmstream.io.binary.marshal:process_array", "tpmstream.io.binary.marshal:process_byte_sized_array"]

_REG = None


def registry():
    """name -> real class, for structure types, area types, frames"""
    global _REG
    if _REG is None:
        from tpmstream.spec.commands import Command, CommandResponseStream, Response
        from tpmstream.spec.commands.params_common import TPM2B_ENCRYPTED_PARAM
        from tpmstream.spec.structures import structures_types
        from tpmstream.spec.structures.constants import TPM_CC

        r = {t.__name__: t for t in structures_types}
        r["TPM2B_ENCRYPTED_PARAM"] = TPM2B_ENCRYPTED_PARAM
        r["Command"], r["Response"], r["CommandResponseStream"] = Command, Response, CommandResponseStream
        areas = {}
        maps = {"cmd_handles": Command._type_maps["handles"], "cmd_params": Command._type_maps["parameters"],
                "rsp_handles": Response._type_maps["handles"], "rsp_params": Response._type_maps["parameters"]}
        for cc in TPM_CC:
            for k, m in maps.items():
                if cc in m:
                    areas[(k, cc._name)] = m[cc]
        _REG = (r, areas)
    return _REG


def M():
    return mod("tpmstream.io.binary.marshal")


def C():
    return mod("tpmstream.common.constraints")


def walker_stubs(contract):
    m, c = M(), C()
    return {m.process: contract, c.SizeConstraint.set_constraint: SET_CONSTRAINT, c.SizeConstraint.assert_done: ASSERT_DONE,
            m.is_parameter_encryption: is_parameter_encryption_stub}


def base_path():
    from tpmstream.common.path import Path, PathNode

    return Path((PathNode(""), PathNode("x")))


def sub(path, name):
    from tpmstream.common.path import PathNode

    return path / PathNode(name)


def enclosing(ctx, k):
    """k abstract live enclosing regions (outermost first) in a list, as a walker finds them on entry"""
    regs = [mk_region(ctx, f"enc{i}", "armed") for i in range(k)]
    L = mk_region_list(regs)
    ctx.ghost["regs0"] = list(regs)
    ctx.ghost["L"] = L
    return regs, L


# ---------------------------------------------------------------------------------------------
# comparing a walker trace with the expected one-level unfolding


def cmp_walk(ctx, trace, outcome, exp, mode):
    """exp: {'items': [...], 'outcome': ...}; items: ('event', path, typename|class, ...) | ('process', {...}) |
    ('set_constraint', {...}) | ('assert_done', {...}) | ('warning-of', call-index) | ('needs-any',)"""
    g = {}
    items = exp["items"]
    # the walker's own trace items (emits + calls); region-method stubs add their own warning/needs items which the spec lists too
    g["trace/length"] = (len(trace) == len(items), f"actual {summ2(trace)} expected {[i[0] for i in items]}")
    calls = []
    for i, (a, e) in enumerate(zip(trace, items)):
        k = f"trace/item{i}:{e[0]}"
        if e[0] == "event":
            ok = a[0] == "emit" and type(a[1]).__name__ == "MarshalEvent"
            if not ok:
                g[k] = (False, f"expected structure event, got {safe_repr(a)}")
                continue
            ev = a[1]
            g[k] = (ev.path == e[1] and type_matches(ev.type, e[2]) and ev.value is ..., f"event ({ev.path}, {typeref(ev.type)}, {ev.value!r}) expected ({e[1]}, {e[2] if isinstance(e[2], str) else typeref(e[2])}, ...)")
        elif e[0] == "process":
            ok = a[0] == "call" and a[1] == "process"
            if not ok:
                g[k] = (False, f"expected a call of process, got {safe_repr(a)}")
                continue
            rec = a[2]
            calls.append(rec)
            args = rec["args"]
            want = e[1]
            probs = []
            if not type_matches(args["tpm_type"], want["type"]):
                probs.append(f"type {typeref(args['tpm_type'])} expected {want['type'] if isinstance(want['type'], str) else typeref(want['type'])}")
            if args["path"] != want["path"]:
                probs.append(f"path {args['path']} expected {want['path']}")
            for nm in ("count", "selector", "array_size_constraint", "size_constraints", "command_code"):
                if args[nm] is not want.get(nm):
                    probs.append(f"{nm} is {args[nm]!r} expected {want.get(nm)!r}")
            if args["abort_on_error"] is not (mode == "strict"):
                probs.append(f"abort_on_error {args['abort_on_error']!r}")
            pe = want.get("parameter_encryption")
            if pe is ANY:
                pass
            elif isinstance(pe, S.SBool) or isinstance(args["parameter_encryption"], S.SBool):
                if not (isinstance(pe, S.SBool) and isinstance(args["parameter_encryption"], S.SBool) and pe.t.eq(args["parameter_encryption"].t)):
                    probs.append(f"parameter_encryption {args['parameter_encryption']!r} expected {pe!r}")
            elif args["parameter_encryption"] is not pe:
                probs.append(f"parameter_encryption {args['parameter_encryption']!r} expected {pe!r}")
            g[k] = (not probs, "; ".join(probs))
        elif e[0] in ("set_constraint", "assert_done"):
            ok = a[0] == "call" and a[1] == e[0]
            if not ok:
                g[k] = (False, f"expected {e[0]}, got {safe_repr(a)}")
                continue
            args = a[2]["args"]
            want = e[1]
            probs = []
            for nm, wv in want.items():
                av = args.get(nm)
                if nm == "constraint_path":
                    if av != wv:
                        probs.append(f"{nm} {av} expected {wv}")
                elif nm == "abort_on_error":
                    if av is not wv:
                        probs.append(f"{nm} {av!r}")
                elif av is not wv:
                    probs.append(f"{nm} is {av!r} expected {wv!r}")
            g[k] = (not probs, "; ".join(probs))
        elif e[0] == "warning":
            ok = a[0] == "emit" and type(a[1]).__name__ == "WarningEvent" and a[1].error is e[1]
            g[k] = (ok, f"expected a warning wrapping {e[1]!r}, got {safe_repr(a)}")
            snap0 = getattr(e[1], "_pyvc_snap", None)
            if ok and snap0 is not None:
                snap1 = ctx.ghost.get("emit_snap", {}).get(id(a[1]))
                diff = [kk for kk in snap0 if snap1 is None or snap1.get(kk) != snap0[kk]]
                g[k + "/says-what-the-error-said-when-it-was-raised"] = (not diff, f"changed between the raise and the warning: {[(kk, snap0[kk], (snap1 or {}).get(kk)) for kk in diff[:3]]}")
        elif e[0] == "needs":
            g[k] = a[0] == "needs"
        else:
            g[k] = (False, f"unknown expected item {e!r}")
    eo = exp["outcome"]
    if eo[0] == "raise":
        ok = outcome[0] == "raise" and outcome[1].exc is eo[1]
        g["outcome/propagates-the-callee-error-unchanged"] = (ok, f"actual {safe_repr(outcome)} expected raise of {eo[1]!r}")
        snap0 = getattr(eo[1], "_pyvc_snap", None)
        if ok and snap0 is not None:
            from contracts.walker_stubs import error_snapshot

            snap1 = error_snapshot(eo[1])
            diff = [kk for kk in snap0 if snap1.get(kk) != snap0[kk] and kk != "bytes_remaining"]
            g["outcome/the-propagated-error-says-what-it-said-when-it-was-raised"] = (not diff, f"changed on the way up: {[(kk, snap0[kk], snap1.get(kk)) for kk in diff[:3]]}")
    elif eo[0] == "raise-class":
        ok = outcome[0] == "raise" and type(outcome[1].exc).__name__ == eo[1]
        g["outcome/raises"] = (ok, f"actual {safe_repr(outcome)} expected {eo[1]}")
        if ok and len(eo) > 2:
            for kk, vv in cmp_error(outcome[1].exc, eo[1], eo[2]).items():
                g[f"outcome/{kk}"] = vv
    else:
        ok = outcome[0] == "return" and isinstance(outcome[1], tuple) and len(outcome[1]) == 2
        g["outcome/returns"] = (ok, f"actual {safe_repr(outcome)}")
        if ok:
            obj = outcome[1][1]
            want = eo[1]
            if want is None:
                g["outcome/object"] = (obj is None, f"object {obj!r} expected None")
            elif isinstance(want, tuple) and want[0] == "is":
                g["outcome/object"] = (obj is want[1], f"object {obj!r} expected {want[1]!r}")
            else:
                cls, fields = want
                probs = []
                if not type_matches(type(obj), cls):
                    probs.append(f"class {type(obj).__name__} expected {cls if isinstance(cls, str) else cls.__name__}")
                else:
                    for nm, wv in fields.items():
                        av = getattr(obj, nm, _MISSING)
                        if av is not wv:
                            probs.append(f".{nm} is {av!r} expected {wv!r}")
                    if dataclasses.is_dataclass(obj):
                        for f in dataclasses.fields(obj):
                            if f.name not in fields and getattr(obj, f.name) is not None:
                                probs.append(f".{f.name} unexpectedly set")
                g["outcome/object"] = (not probs, "; ".join(probs))
    return g


_MISSING = object()


class _Any:
    def __repr__(self):
        return "<any>"


ANY = _Any()  # an argument the property does not constrain


def type_matches(actual, want):
    """want: class | typeref string"""
    if isinstance(want, str):
        if typeref(actual) != want:
            return False
        if is_list_t(actual):
            return True
        reg, _ = registry()
        return reg.get(want) is actual or want not in reg
    return actual is want


def safe_repr(x):
    try:
        if isinstance(x, tuple) and len(x) == 2 and x[0] in ("return", "raise"):
            if x[0] == "raise":
                return f"raise {type(x[1].exc).__name__} at {x[1].site}"
            return "return " + safe_repr(x[1])
        if isinstance(x, tuple):
            return "(" + ", ".join(safe_repr(y) for y in x) + ")"
        if hasattr(x, "__dict__") and x.__dict__.get("_pyvc_typed"):
            return f"{type(x).__name__}({x.__dict__['_value']!r})"
        if dataclasses.is_dataclass(x) and not isinstance(x, type):
            return f"{type(x).__name__}(" + ", ".join(f"{f.name}={safe_repr(getattr(x, f.name))}" for f in dataclasses.fields(x)) + ")"
        return repr(x)
    except Exception as e:
        return f"<{type(x).__name__}>"


def summ2(tr):
    out = []
    for x in tr:
        if x[0] == "emit":
            out.append(type(x[1]).__name__)
        elif x[0] == "call":
            out.append(x[1])
        else:
            out.append(x[0])
    return out


def acc_goals(ctx, regs, pos0):
    """accounting invariant: every enclosing region that is still live advanced by exactly the bytes consumed"""
    g = {}
    dpos = ctx.ghost.get("pos", z3.IntVal(0)) - pos0
    tr = ctx.trace
    padded = any(x[0] == "needs" for x in tr)
    overrun = any(x[0] == "emit" and type(x[1]).__name__ == "WarningEvent" and type(x[1].error).__name__ == "SizeConstraintExceededError" for x in tr)
    tag = "ACC-after-reported-overrun" if overrun else ("ACC-after-padded-shortfall" if padded else "ACC")
    for r in regs:
        if r.is_obsolete:
            continue
        g[f"{tag}/{r._ghost['name']}"] = sym_equal(S.SInt(S.term(r.size_already)), S.SInt(z3.simplify(r._ghost["a0"] + dpos)))
    return g


def finish_unit(ctx, outcome, spec_goal_pairs, site, regs=None, pos0=None, allowed_raises=()):
    for name, spec, goal in spec_goal_pairs:
        check_against_spec(ctx, name, spec, goal, site=site)
    from contracts.walker_stubs import relay_finish

    relay_finish(ctx, site)
    mode = ctx.ghost.get("mode")
    regs0 = ctx.ghost.get("regs0")
    L = ctx.ghost.get("L")
    if mode == "warn" and outcome[0] == "raise" and not isinstance(outcome[1].exc, INTERNAL):
        e = outcome[1].exc
        ok = type(e).__name__ == "ValueConstraintViolatedError" or (type(e).__name__ == "SizeConstraintExceededError" and regs0 is not None and any(e.constraint is r for r in regs0))
        ctx.record("NOABORT/only-an-enclosing-overrun-or-a-fatal-value-error-leaves-the-walker", ok, "post", outcome[1].site or site, detail=f"{type(e).__name__}")
    if mode == "warn" and outcome[0] == "return" and L is not None and regs0 is not None:
        stale = [c for c in L if c.is_obsolete is False and not any(c is r for r in regs0)]
        ctx.record("RECOVER/no-abandoned-region-stays-live", not stale, "post", site, detail=f"{len(stale)} region(s) opened below stay live after the walker returned")
    if ctx.ghost.get("outside_contract"):
        pass  # the path is outside the function's precondition for this property; its own obligation was recorded by the spec
    elif outcome[0] == "raise" and isinstance(outcome[1].exc, INTERNAL) and not isinstance(outcome[1].exc, allowed_raises):
        ctx.record("no-internal-error", False, "safety", outcome[1].site or site, detail=repr(outcome[1].exc)[:300])
    else:
        ctx.record("no-internal-error", True, "safety")
    ctx.record("FRAME/no-write-to-shared-state", not ctx.frame_writes, "frame", detail="; ".join(ctx.frame_writes[:3]))


# ---------------------------------------------------------------------------------------------
# process_tpms


def spec_tpms(ent, shown, path, L, mode, trace):
    """expected unfolding of a struct / area with layout entry `ent` (fields, selectors); `shown` = class shown in the parent event"""
    items = [("event", path, shown)]
    calls = [x[2] for x in trace if x[0] == "call" and x[1] == "process"]
    values = {}
    order = []
    sel = ent.get("selectors", {})
    for j, f in enumerate(ent["fields"]):
        want = {"type": f["type"], "path": sub(path, f["name"]), "size_constraints": L}
        if f["type"].startswith("list["):
            prev = [values[n] for n in order if not is_list_value(values[n], ent, n)]
            want["count"] = prev[-1] if prev else None
        elif f["name"] in sel:
            want["selector"] = values.get(sel[f["name"]])
        items.append(("process", want))
        if j >= len(calls):
            return {"items": items, "outcome": ("return", None)}  # length mismatch will be reported
        rec = calls[j]
        if rec["case"] != "return":
            return {"items": items, "outcome": ("raise", rec["exc"])}
        values[f["name"]] = rec["result"]
        order.append(f["name"])
    return {"items": items, "outcome": ("return", (shown, dict(values)))}


def is_list_value(v, ent, name):
    t = next(f["type"] for f in ent["fields"] if f["name"] == name)
    return t.startswith("list[")


def unit_tpms(key, mode, nenc=1, enc=False):
    """key: structure type name, or 'area:<table>:<ccname>'"""
    L0 = layout()
    reg, areas = registry()
    if key.startswith("area:"):
        _, table, ccn = key.split(":")
        T = areas[(table, ccn)]
        ent = L0["commands"][ccn][table]
        if enc:
            ent = L0["encrypted"].get(f"{table}:{ccn}")
    else:
        T = reg[key]
        ent = L0["structs"][key]
    label = f"WALK/tpms/{key}{'/encrypted' if enc else ''}/{mode}"
    u = UnitResult(label)
    u.functions = FUNCS[:2]
    if ent is None:
        return u
    contract = ProcessContract(L0["primitives"])
    stubs = walker_stubs(contract)
    path = base_path()

    def run(ctx):
        regs, L = enclosing(ctx, nenc)
        pos0 = ctx.ghost.setdefault("pos", z3.IntVal(0))
        ctx.ghost["mode"] = mode
        I = Interp(ctx, stubs=stubs)
        kw = {"size_constraints": L, "abort_on_error": mode == "strict"}
        if enc:
            kw["parameter_encryption"] = True
        igen = run_sync(I.call(M().process_tpms, (T, path), kw))
        outcome = drive_coroutine(ctx, igen)
        shown = ent["name"] if enc else T
        if enc:
            shown = T.encrypted()  # the synthesized class (its field list is compared with O1 below)

        def spec(env):
            return spec_tpms(ent, shown, path, L, mode, ctx.trace)

        def goal(exp):
            g = cmp_walk(ctx, ctx.trace, outcome, exp, mode)
            if outcome[0] == "return":
                g.update(acc_goals(ctx, regs, pos0))
            return g

        finish_unit(ctx, outcome, [("TRACE", spec, goal)], "marshal.py:process_tpms")
        return outcome

    res = explore(run, max_paths=4000)
    u.add_paths(res, label)
    if enc:
        # the synthesized encrypted layout itself equals the pinned one
        try:
            now = [{"name": f.name, "type": typeref(f.type)} for f in dataclasses.fields(T.encrypted())]
            ok = now == ent["fields"]
            det = f"now {now} pinned {ent['fields']}"
        except Exception as e:
            ok, det = False, f"encrypted() raised {e!r}"
        u.obligations.append({"name": f"{label}/ENC/synthesized-layout-equals-pinned", "kind": "table", "site": "params_common.py:encrypted", "status": "proved" if ok else "refuted",
                              "backend": "evaluation", "seconds": 0, "model": None, "detail": det})
    if res:
        u.samples.append({"unit": label, "paths": len(res), "trace": summ2(res[0].ctx.trace)})
    return u


# ---------------------------------------------------------------------------------------------
# process_tpm2b


def unit_tpm2b(tname, mode, nenc=1):
    L0 = layout()
    reg, _ = registry()
    T = reg[tname]
    ent = L0["tpm2b"][tname]
    label = f"WALK/tpm2b/{tname}/{mode}"
    u = UnitResult(label)
    u.functions = [FUNCS[2]]
    contract = ProcessContract(L0["primitives"])
    stubs = walker_stubs(contract)
    path = base_path()
    sf, bf = ent["fields"]
    strict = mode == "strict"

    def run(ctx):
        regs, L = enclosing(ctx, nenc)
        pos0 = ctx.ghost.setdefault("pos", z3.IntVal(0))
        ctx.ghost["mode"] = mode
        I = Interp(ctx, stubs=stubs)
        igen = run_sync(I.call(M().process_tpm2b, (T, path), {"size_constraints": L, "abort_on_error": strict}))
        outcome = drive_coroutine(ctx, igen)
        tr = ctx.trace

        def spec(env):
            items = [("event", path, T)]
            pcalls = [x[2] for x in tr if x[0] == "call" and x[1] == "process"]
            rcalls = [x[2] for x in tr if x[0] == "call" and x[1] in ("set_constraint", "assert_done")]
            size_path = sub(path, sf["name"])
            items.append(("process", {"type": sf["type"], "path": size_path, "size_constraints": L}))
            if not pcalls:
                return {"items": items, "outcome": ("return", None)}
            if pcalls[0]["case"] != "return":
                return {"items": items, "outcome": ("raise", pcalls[0]["exc"])}
            size_v = pcalls[0]["result"]
            if not rcalls:
                items.append(("set_constraint", {}))
                return {"items": items, "outcome": ("return", None)}
            region = rcalls[0]["args"].get("self")
            items.append(("set_constraint", {"constraint_path": size_path, "size_max": size_v, "other_size_constraints": L, "abort_on_error": strict}))
            sc = rcalls[0]
            if sc.get("violated") is not None:
                if strict:
                    return {"items": items, "outcome": ("raise", sc["exc"])}
                items.append(("warning", sc["exc"]))
            s = typed_int(size_v)
            body_path = sub(path, bf["name"])
            values = {sf["name"]: size_v}
            own = {"region": region}

            def close(items):
                items.append(("assert_done", {"self": region, "abort_on_error": strict}))
                ad = rcalls[1] if len(rcalls) > 1 else None
                if ad is None:
                    return None
                if not ad.get("full"):
                    if strict:
                        return ("raise", ad["exc"])
                    items.append(("warning", ad["exc"]))
                    items.append(("needs",))
                return "ok"

            if bf["type"].startswith("list["):
                items.append(("process", {"type": bf["type"], "path": body_path, "count": size_v, "size_constraints": L}))
                if len(pcalls) < 2:
                    return {"items": items, "outcome": ("return", None)}
                if pcalls[1]["case"] != "return":
                    return {"items": items, "outcome": ("raise", pcalls[1]["exc"])}
                values[bf["name"]] = pcalls[1]["result"]
                r = close(items)
                if r is None:
                    return {"items": items, "outcome": ("return", None)}
                if r != "ok":
                    return {"items": items, "outcome": r}
                return {"items": items, "outcome": ("return", (T, values))}
            # structured body
            if env.decide(s == 0):
                items.append(("event", body_path, bf["type"]))
                values[bf["name"]] = None
                r = close(items)
                if r is None:
                    return {"items": items, "outcome": ("return", None)}
                if r != "ok":
                    return {"items": items, "outcome": r}
                return {"items": items, "outcome": ("return", (T, values))}
            items.append(("process", {"type": bf["type"], "path": body_path, "size_constraints": L}))
            if len(pcalls) < 2:
                return {"items": items, "outcome": ("return", None)}
            if pcalls[1]["case"] != "return":
                exc = pcalls[1]["exc"]
                if not strict and type(exc).__name__ == "SizeConstraintExceededError" and exc.constraint is region:
                    # the owner reports the overrun of its own region and gives up the body
                    items.append(("warning", exc))
                    return {"items": items, "outcome": ("return", None)}
                return {"items": items, "outcome": ("raise", exc)}
            values[bf["name"]] = pcalls[1]["result"]
            r = close(items)
            if r is None:
                return {"items": items, "outcome": ("return", None)}
            if r != "ok":
                return {"items": items, "outcome": r}
            return {"items": items, "outcome": ("return", (T, values))}

        def goal(exp):
            g = cmp_walk(ctx, tr, outcome, exp, mode)
            if outcome[0] == "return":
                g.update(acc_goals(ctx, regs, pos0))
            # region ownership: the region armed here is a fresh one, appended to the list after the size field
            rc = [x[2] for x in tr if x[0] == "call" and x[1] == "set_constraint"]
            pc = [x[2] for x in tr if x[0] == "call" and x[1] == "process"]
            if rc:
                region = rc[0]["args"].get("self")
                g["REGION/fresh"] = (region is not None and all(region is not r for r in regs), "the TPM2B region must be a new object")
                g["REGION/counts-from-after-the-size-field"] = (_eq(rc[0]["already_at_arming"], 0) and (not pc or all(region is not c for c in pc[0]["live"])), "region counted the size field or pre-existing bytes")
                if len(pc) > 1:
                    g["REGION/live-while-the-body-is-decoded"] = (any(region is c for c in pc[1]["live"]), "region not in the constraint list passed to the body")
            return g

        finish_unit(ctx, outcome, [("TRACE", spec, goal)], "marshal.py:process_tpm2b")
        return outcome

    res = explore(run, max_paths=4000)
    u.add_paths(res, label)
    if res:
        u.samples.append({"unit": label, "paths": len(res), "trace": summ2(res[-1].ctx.trace)})
    return u


# ---------------------------------------------------------------------------------------------
# process_tpmu


def union_parents():
    """(union name, selector type name) pairs occurring in the pinned layout"""
    L0 = layout()
    out = set()
    def scan(ent):
        sel = ent.get("selectors", {})
        ft = {f["name"]: f["type"] for f in ent["fields"]}
        for fname, sname in sel.items():
            if ft.get(fname) in L0["unions"]:
                out.add((ft[fname], ft[sname]))
    for ent in L0["structs"].values():
        scan(ent)
    for c in L0["commands"].values():
        for k in ("cmd_handles", "cmd_params", "rsp_handles", "rsp_params"):
            scan(c[k])
    return sorted(out)


def expected_member(env, U, s):
    """member selected by selector value s: the last declared member whose selector value equals s, else the last wildcard member"""
    chosen = None
    fallback = None
    for m in U["selected_by_order"]:
        v = U["selected_by"][m]
        if v is None:
            fallback = m
        elif "value" in v:
            if env.decide(s == v["value"]):
                chosen = m
    return chosen if chosen is not None else fallback


def unit_tpmu(uname, sname, mode, nenc=1):
    from contracts.u05_typed import allowed_formula, width_range

    L0 = layout()
    reg, _ = registry()
    U = L0["unions"][uname]
    T = reg[uname]
    ST = reg[sname]
    SP = L0["primitives"][sname]
    label = f"WALK/tpmu/{uname}/by-{sname}/{mode}"
    u = UnitResult(label)
    u.functions = [FUNCS[3]]
    contract = ProcessContract(L0["primitives"])
    stubs = walker_stubs(contract)
    path = base_path()
    strict = mode == "strict"
    mt = {f["name"]: f["type"] for f in U["members"]}

    def run(ctx):
        regs, L = enclosing(ctx, nenc)
        pos0 = ctx.ghost.setdefault("pos", z3.IntVal(0))
        lo, hi = width_range(SP)
        s = ctx.fresh_int("sel", lo, hi)
        if strict:
            ctx.assume(allowed_formula(SP, s))  # the selector field was validated when it was decoded (leaf contract)
        selector = TypedStub.make(ST, S.SInt(s))
        ctx.ghost["mode"] = mode
        I = Interp(ctx, stubs=stubs)
        igen = run_sync(I.call(M().process_tpmu, (T, path, selector), {"size_constraints": L, "abort_on_error": strict}))
        outcome = drive_coroutine(ctx, igen)
        tr = ctx.trace

        def spec(env):
            items = [("event", path, T)]
            m = expected_member(env, U, s)
            if m is None:
                # the layout is unknowable: both modes must report a value error (C04 / C08)
                return {"items": items, "outcome": ("raise-class", "ValueConstraintViolatedError")}
            t = mt[m]
            if t == "None":
                return {"items": items, "outcome": ("return", None)}
            want = {"type": t, "path": sub(path, m), "size_constraints": L}
            if t.startswith("list["):
                want["count"] = ("int", U.get("list_size", {}).get(m))
            items.append(("process", want))
            pcalls = [x[2] for x in tr if x[0] == "call" and x[1] == "process"]
            if not pcalls:
                return {"items": items, "outcome": ("return", None)}
            if pcalls[0]["case"] != "return":
                return {"items": items, "outcome": ("raise", pcalls[0]["exc"])}
            return {"items": items, "outcome": ("return", (T, {m: pcalls[0]["result"]}))}

        def goal(exp):
            # a concrete list length is compared by value
            for it in exp["items"]:
                if it[0] == "process" and isinstance(it[1].get("count"), tuple):
                    want = it[1]["count"][1]
                    pc = [x[2] for x in tr if x[0] == "call" and x[1] == "process"]
                    it[1]["count"] = pc[0]["args"]["count"] if pc and isinstance(pc[0]["args"]["count"], int) and pc[0]["args"]["count"] == want else ("mismatch", want)
            g = cmp_walk(ctx, tr, outcome, exp, mode)
            if outcome[0] == "return":
                g.update(acc_goals(ctx, regs, pos0))
            return g

        finish_unit(ctx, outcome, [("TRACE", spec, goal)], "marshal.py:process_tpmu")
        return outcome

    res = explore(run, max_paths=4000)
    u.add_paths(res, label)
    if res:
        u.samples.append({"unit": label, "paths": len(res)})
    return u


# ---------------------------------------------------------------------------------------------
# process (dispatch)


def kind_of(name):
    L0 = layout()
    if name in ("Command", "Response", "CommandResponseStream"):
        return name
    if name in L0["primitives"]:
        return "primitive"
    if name in L0["tpm2b"]:
        return "tpm2b"
    if name in L0["unions"]:
        return "union"
    if name.startswith("list["):
        return "list"
    return "struct"


def unit_dispatch(names, mode):
    """the branch of process() taken for each type, and what it forwards"""
    L0 = layout()
    reg, areas = registry()
    m = M()
    label = f"WALK/dispatch/{names[0]}..{names[-1]}/{mode}"
    u = UnitResult(label)
    u.functions = [FUNCS[0]]
    strict = mode == "strict"
    walkers = ["process_command_response_stream", "process_command", "process_response", "process_primitive", "process_tpm2b", "process_tpmu",
               "process_byte_sized_array", "process_array", "process_tpms"]
    path = base_path()
    SENT = object()

    def resolve(n):
        if n.startswith("area:"):
            _, table, ccn = n.split(":")
            return areas[(table, ccn)], "struct"
        if n.startswith("list["):
            inner = n[5:-1]
            return list[reg[inner]], "list"
        return reg[n], kind_of(n)

    for n in names:
        T, kind = resolve(n)
        for asc_given in ((False, True) if kind == "list" else (False,)):
            for given_list in (True, False):
                def run(ctx, T=T, kind=kind, asc_given=asc_given, given_list=given_list):
                    called = []
                    stubs = {}
                    for w in walkers:
                        def mk(w):
                            def stub(I, args, kwargs):
                                def gen():
                                    called.append((w, args, kwargs))
                                    return SENT
                                    yield
                                from pyvc.interp import IGen
                                return IGen(gen(), w)
                                yield
                            return stub
                        stubs[getattr(m, w)] = mk(w)
                    regs, L = enclosing(ctx, 1)
                    sel, cnt, cc, pe = object(), object(), object(), object()
                    asc = regs[0] if asc_given else None
                    I = Interp(ctx, stubs=stubs)
                    kw = {"selector": sel, "count": cnt, "command_code": cc, "parameter_encryption": pe, "array_size_constraint": asc, "abort_on_error": strict}
                    if given_list:
                        kw["size_constraints"] = L
                    igen = run_sync(I.call(m.process, (T, path), kw))
                    outcome = drive_coroutine(ctx, igen)
                    want = {"CommandResponseStream": "process_command_response_stream", "Command": "process_command", "Response": "process_response", "primitive": "process_primitive",
                            "tpm2b": "process_tpm2b", "union": "process_tpmu", "struct": "process_tpms", "list": "process_byte_sized_array" if asc_given else "process_array"}[kind]
                    ok = len(called) == 1 and called[0][0] == want
                    ctx.record("walker-by-kind", ok, site="marshal.py:process", detail=f"{typeref(T)} ({kind}): called {[c[0] for c in called]}, expected {want}")
                    if ok:
                        w, args, kwargs = called[0]
                        import inspect
                        sig = inspect.signature(getattr(m, w))
                        try:
                            b = sig.bind(*args, **kwargs)
                            b.apply_defaults()
                            a = b.arguments
                        except TypeError as e:
                            ctx.record("forwards-arguments", False, site="marshal.py:process", detail=str(e))
                            a = None
                        if a is not None:
                            probs = []
                            if "tpm_type" in a and a["tpm_type"] is not T:
                                probs.append("tpm_type")
                            if a.get("path") != path:
                                probs.append("path")
                            if a.get("abort_on_error") is not strict:
                                probs.append("abort_on_error")
                            exp_fw = {"process_tpmu": {"selector": sel}, "process_array": {"count": cnt}, "process_byte_sized_array": {"array_size_constraint": asc},
                                      "process_response": {"command_code": cc, "parameter_encryption": pe}, "process_tpms": {"parameter_encryption": pe}}.get(w, {})
                            for k2, v2 in exp_fw.items():
                                if a.get(k2) is not v2:
                                    probs.append(k2)
                            if "size_constraints" in a:
                                sc = a["size_constraints"]
                                if given_list:
                                    if sc is not L:
                                        probs.append("size_constraints not the caller's list")
                                else:
                                    if sc is None or type(sc).__name__ != "SizeConstraintList" or len(sc) != 0 or I.note_is_shared(sc):
                                        probs.append("size_constraints must be a fresh empty list per call")
                            ctx.record("forwards-arguments", not probs, site="marshal.py:process", detail="; ".join(probs))
                        ctx.record("returns-walker-result", outcome[0] == "return" and outcome[1] is SENT, site="marshal.py:process")
                    ctx.record("FRAME/no-write-to-shared-state", not ctx.frame_writes, "frame", detail="; ".join(ctx.frame_writes[:3]))
                    return outcome

                res = explore(run, max_paths=50)
                u.add_paths(res, f"WALK/dispatch/{n}{'/byte-sized' if asc_given else ''}{'' if given_list else '/no-list'}/{mode}")
    return u


# ---------------------------------------------------------------------------------------------
# minimal encoded size of a type (for the termination variant of the byte-sized array)

_MIN = {}


def min_size_name(name):
    L0 = layout()
    if name in _MIN:
        return _MIN[name]
    _MIN[name] = 0
    if name in L0["primitives"]:
        r = L0["primitives"][name]["width"]
    elif name in L0["tpm2b"]:
        r = min_size_name(L0["tpm2b"][name]["fields"][0]["type"])
    elif name in L0["structs"]:
        r = sum(min_size_name(f["type"]) for f in L0["structs"][name]["fields"])
    else:
        r = 0
    _MIN[name] = r
    return r


def min_size(T):
    if is_list_t(T):
        return 0
    return min_size_name(getattr(T, "__name__", ""))


def loop_specs():
    from contracts.walker_loops import ArrayLoop, ByteSizedLoop, StreamLoop

    return {("process_array", 0): ArrayLoop(), ("process_byte_sized_array", 0): ByteSizedLoop(), ("process_command_response_stream", 0): StreamLoop()}


def list_types():
    """element type names E with list[E] occurring in the pinned layout"""
    L0 = layout()
    out = set()
    def scan(fields):
        for f in fields:
            if f["type"].startswith("list["):
                out.add(f["type"][5:-1])
    for sect in ("structs", "tpm2b"):
        for ent in L0[sect].values():
            scan(ent["fields"])
    for un in L0["unions"].values():
        scan(un["members"])
    for c in L0["commands"].values():
        for k in ("cmd_handles", "cmd_params", "rsp_handles", "rsp_params"):
            scan(c[k]["fields"])
    for fr in ("Command", "Response"):
        scan(L0["frames"][fr]["fields"])
    return sorted(out)


def unit_array(ename, mode, bytesized=False, count_kind="symbolic", nenc=1):
    L0 = layout()
    reg, _ = registry()
    E = reg[ename]
    LT = list[E]
    fn = "process_byte_sized_array" if bytesized else "process_array"
    label = f"WALK/{'bytesized' if bytesized else 'array'}/{ename}/{count_kind}/{mode}"
    u = UnitResult(label)
    u.functions = [f"tpmstream.io.binary.marshal:{fn}"]
    contract = ProcessContract(L0["primitives"], min_size=min_size)
    stubs = walker_stubs(contract)
    loops = loop_specs()
    path = base_path()
    strict = mode == "strict"
    from tpmstream.spec.structures.base_types import UINT32

    def run(ctx):
        regs, L = enclosing(ctx, nenc)
        pos0 = ctx.ghost.setdefault("pos", z3.IntVal(0))
        ctx.ghost["mode"] = mode
        I = Interp(ctx, stubs=stubs, loop_specs=loops)
        if bytesized:
            asc = regs[-1]
            igen = run_sync(I.call(M().process_byte_sized_array, (LT, path, asc), {"size_constraints": L, "abort_on_error": strict}))
        else:
            if count_kind == "symbolic":
                cterm = ctx.fresh_int("count", 0, 2**32 - 1)
                count = TypedStub.make(UINT32, S.SInt(cterm))
            else:
                cterm = z3.IntVal(int(count_kind))
                count = int(count_kind)
            igen = run_sync(I.call(M().process_array, (LT, path, count), {"size_constraints": L, "abort_on_error": strict}))
        outcome = drive_coroutine(ctx, igen)
        tr = ctx.trace

        def spec(env):
            items = [("event", path, LT)]
            rest = tr[1:]
            k = 0
            # concretely unrolled iterations and/or a raising element call
            while k < len(rest) and rest[k][0] == "call" and rest[k][1] == "process":
                rec = rest[k][2]
                items.append(("process", {"type": E, "path": rec["args"]["path"], "size_constraints": L}))
                if rec["case"] != "return":
                    exc = rec["exc"]
                    if bytesized and not strict and type(exc).__name__ == "SizeConstraintExceededError" and exc.constraint is regs[-1]:
                        items.append(("warning", exc))
                        return {"items": items, "outcome": ("return", None)}
                    return {"items": items, "outcome": ("raise", exc)}
                k += 1
            if k < len(rest) and rest[k][0] == "array":
                items.append(("array",))
                k += 1
            if bytesized:
                items.append(("assert_done", {"self": regs[-1], "abort_on_error": strict}))
                ad = next((x[2] for x in rest[k:] if x[0] == "call" and x[1] == "assert_done"), None)
                if ad is not None and not ad.get("full"):
                    if strict:
                        return {"items": items, "outcome": ("raise", ad["exc"])}
                    items.append(("warning", ad["exc"]))
                    items.append(("needs",))
            return {"items": items, "outcome": ("return", "list")}

        def goal(exp):
            items = exp["items"]
            g = {}
            g["trace/length"] = (len(tr) == len(items), f"actual {summ2(tr)} expected {[i[0] for i in items]}")
            for i, (a, e) in enumerate(zip(tr, items)):
                if e[0] == "array":
                    g[f"trace/item{i}:array"] = a[0] == "array"
            sub_items = [(a, e) for a, e in zip(tr, items) if e[0] != "array"]
            g2 = cmp_walk(ctx, [a for a, _ in sub_items], outcome, {"items": [e for _, e in sub_items], "outcome": exp["outcome"] if exp["outcome"][1] != "list" else ("return", ("is", outcome[1][1] if outcome[0] == "return" else None))}, mode)
            g2.pop("trace/length", None)
            g.update(g2)
            if exp["outcome"] == ("return", "list"):
                ok = outcome[0] == "return" and isinstance(outcome[1][1], list) and type_matches(LT, typeref(LT))
                g["outcome/is-the-element-list"] = (ok, safe_repr(outcome))
                if ok:
                    arr = next((x[1] for x in tr if x[0] == "array"), None)
                    if arr is not None:
                        g["outcome/list-object"] = outcome[1][1] is arr["list"]
                        if not bytesized:
                            g["outcome/element-count"] = sym_equal(S.SInt(arr["count"]), S.SInt(z3.If(cterm >= 0, cterm, 0)))
                    else:
                        calls = [x for x in tr if x[0] == "call" and x[1] == "process"]
                        g["outcome/elements-are-the-results"] = len(outcome[1][1]) == len(calls) and all(x is c[2].get("result") for x, c in zip(outcome[1][1], calls))
            if outcome[0] == "return":
                g.update(acc_goals(ctx, regs, pos0))
            return g

        finish_unit(ctx, outcome, [("TRACE", spec, goal)], f"marshal.py:{fn}")
        return outcome

    res = explore(run, max_paths=4000)
    u.add_paths(res, label)
    if res:
        u.samples.append({"unit": label, "paths": len(res), "outcomes": [r.outcome for r in res][:8]})
    return u


# ---------------------------------------------------------------------------------------------
# process_command / process_response / process_command_response_stream


def cc_member(ccn):
    from tpmstream.spec.structures.constants import TPM_CC

    return getattr(TPM_CC, ccn)


def frame_contract(ccn=None, other_cc=False):
    """process contract for the frame units: the commandCode field is fixed to one command code (or to 'no known code')"""
    from tpmstream.spec.structures.constants import TPM_CC

    L0 = layout()
    fixed = {}
    if ccn is not None:
        val = L0["commands"][ccn]["cc"]
        fixed[TPM_CC] = lambda v: v == val
    elif other_cc:
        vals = [c["cc"] for c in L0["commands"].values()]
        fixed[TPM_CC] = lambda v: z3.And([v != x for x in vals])
    return ProcessContract(L0["primitives"], fixed_values=fixed, min_size=min_size)


def expect_close(items, rcalls_iter, region, strict, label="assert_done"):
    """append the expected region closing; returns None (ok) or an outcome tuple"""
    items.append(("assert_done", {"self": region, "abort_on_error": strict}))
    ad = next(rcalls_iter, None)
    if ad is None:
        return ("missing",)
    if not ad.get("full"):
        if strict:
            return ("raise", ad["exc"])
        items.append(("warning", ad["exc"]))
        items.append(("needs",))
    return None


def unit_command(ccn, mode, other_cc=False):
    """process_command for one command code (or for a code outside TPM_CC)"""
    from tpmstream.spec.commands import Command
    from tpmstream.spec.structures.constants import TPM_ST

    L0 = layout()
    reg, areas = registry()
    label = f"WALK/command/{ccn or 'unknown-code'}/{mode}"
    u = UnitResult(label)
    u.functions = ["tpmstream.io.binary.marshal:process_command"]
    contract = frame_contract(ccn, other_cc)
    stubs = walker_stubs(contract)
    path = base_path()[:1]
    strict = mode == "strict"
    fields = L0["frames"]["Command"]["fields"]
    SESS = int(TPM_ST.SESSIONS._value)

    def run(ctx):
        pos0 = ctx.ghost.setdefault("pos", z3.IntVal(0))
        ctx.ghost["mode"] = mode
        I = Interp(ctx, stubs=stubs)
        igen = run_sync(I.call(M().process_command, (path,), {"abort_on_error": strict}))
        outcome = drive_coroutine(ctx, igen)
        tr = ctx.trace

        def spec(env):
            items = [("event", path, Command)]
            pcalls = iter([x[2] for x in tr if x[0] == "call" and x[1] == "process"])
            rcalls = iter([x[2] for x in tr if x[0] == "call" and x[1] in ("set_constraint", "assert_done")])
            pe_calls = iter([x[2] for x in tr if x[0] == "call" and x[1] == "is_parameter_encryption"])
            first = next((x[2] for x in tr if x[0] == "call" and x[1] == "process"), None)
            L = first["args"]["size_constraints"] if first else None
            values = {}
            R = {"cmd": None, "auth": None}
            pe = None

            def give_up(exc):
                # warn mode: the command's own regions are reported here and the command is abandoned
                items.append(("warning", exc))
                return {"items": items, "outcome": ("return", (Command, dict(values))), "L": L, "R": R}

            for f in fields:
                name = f["name"]
                if name in ("authSize", "authorizationArea") and not env.decide(typed_int(values["tag"]) == SESS):
                    continue
                want = {"path": sub(path, name), "size_constraints": L}
                if f["type"] == "Any":
                    if ccn is None:
                        # code outside the table: the value error names the commandCode field
                        return {"items": items, "outcome": ("raise-class", "ValueConstraintViolatedError",
                                                            {"constraint_path": sub(path, "commandCode"), "tpm_type": reg["TPM_CC"], "valid_values": ("values", (reg["TPM_CC"],)), "value": typed_int(values["commandCode"])}), "L": L, "R": R}
                    want["type"] = L0["commands"][ccn]["cmd_handles" if name == "handles" else "cmd_params"]["name"]
                    want["type"] = areas[("cmd_handles" if name == "handles" else "cmd_params", ccn)]
                else:
                    want["type"] = f["type"]
                if name == "authorizationArea":
                    want["array_size_constraint"] = R["auth"]
                want["parameter_encryption"] = pe if name == "parameters" else ANY
                items.append(("process", want))
                rec = next(pcalls, None)
                if rec is None:
                    return {"items": items, "outcome": ("return", None), "L": L, "R": R}
                if rec["case"] != "return":
                    exc = rec["exc"]
                    if not strict and type(exc).__name__ == "SizeConstraintExceededError" and exc.constraint in (R["cmd"], R["auth"]) and exc.constraint is not None:
                        return give_up(exc)
                    return {"items": items, "outcome": ("raise", exc), "L": L, "R": R}
                val = rec["result"]
                if name in ("commandSize", "authSize"):
                    sc = next(rcalls, None)
                    region = sc["args"].get("self") if sc else None
                    R["cmd" if name == "commandSize" else "auth"] = region
                    items.append(("set_constraint", {"constraint_path": sub(path, name), "size_max": val, "other_size_constraints": L, "abort_on_error": strict}))
                    if sc is None:
                        return {"items": items, "outcome": ("return", None), "L": L, "R": R}
                    if sc.get("violated") is not None:
                        if strict:
                            return {"items": items, "outcome": ("raise", sc["exc"]), "L": L, "R": R}
                        items.append(("warning", sc["exc"]))
                if name == "authorizationArea" and val is not None:
                    pc = next(pe_calls, None)
                    items.append(("is_parameter_encryption", {"authorizationArea": val}))
                    if pc is None:
                        return {"items": items, "outcome": ("return", None), "L": L, "R": R}
                    b = pc["result"]
                    pe = b if (isinstance(b, S.SBool) and env.decide(b.t)) else None
                values[name] = val
            r = expect_close(items, rcalls, R["cmd"], strict)
            if r is not None and r[0] == "raise":
                return {"items": items, "outcome": r, "L": L, "R": R}
            return {"items": items, "outcome": ("return", (Command, dict(values))), "L": L, "R": R}

        def goal(exp):
            # is_parameter_encryption items are compared separately
            items = exp["items"]
            act = []
            expi = []
            g = {}
            ai = 0
            for e in items:
                if ai >= len(tr):
                    break
                a = tr[ai]
                if e[0] == "is_parameter_encryption":
                    ok = a[0] == "call" and a[1] == "is_parameter_encryption" and a[2]["args"]["authorizationArea"] is e[1]["authorizationArea"] and a[2]["args"]["command"] is None and a[2]["args"]["for_response"] is False
                    g["trace/decrypt-flag-from-this-commands-sessions"] = (ok, safe_repr(a)[:200])
                else:
                    act.append(a)
                    expi.append(e)
                ai += 1
            g["trace/length-total"] = (len(tr) == len(items), f"actual {summ2(tr)} expected {[i[0] for i in items]}")
            g.update(cmp_walk(ctx, act, outcome, {"items": expi, "outcome": exp["outcome"]}, mode))
            g.pop("trace/length", None)
            L = exp["L"]
            R = exp["R"]
            pcs = [x[2] for x in tr if x[0] == "call" and x[1] == "process"]
            if pcs:
                g["REGION/one-list-per-command"] = (L is not None and type(L).__name__ == "SizeConstraintList" and not I.note_is_shared(L), "constraint list missing or shared")
                # commandSize region is live from the first header byte (so that it counts tag and commandSize themselves)
                if R["cmd"] is not None:
                    g["REGION/commandSize-counts-from-first-byte"] = (any(R["cmd"] is c for c in pcs[0]["live"]), "command region not live while the tag is decoded")
                if R["auth"] is not None:
                    idx = next((i for i, p in enumerate(pcs) if p["args"]["path"][-1].name == "authorizationArea"), None)
                    before = next((i for i, p in enumerate(pcs) if p["args"]["path"][-1].name == "authSize"), None)
                    if idx is not None:
                        g["REGION/authSize-region-governs-the-session-area-only"] = (any(R["auth"] is c for c in pcs[idx]["live"]) and (before is None or all(R["auth"] is not c for c in pcs[before]["live"])) and R["auth"] is not R["cmd"], "auth region wrongly scoped")
            return g

        finish_unit(ctx, outcome, [("TRACE", spec, goal)], "marshal.py:process_command")
        return outcome

    res = explore(run, max_paths=6000)
    u.add_paths(res, label)
    if res:
        u.samples.append({"unit": label, "paths": len(res), "longest_trace": summ2(max((r.ctx.trace for r in res), key=len))})
    return u


def unit_response(ccn, mode, enc=False):
    """process_response for one command code (ccn=None: no / unknown command code) and encryption flag"""
    from tpmstream.spec.commands import Response
    from tpmstream.spec.structures.constants import TPM_ST

    L0 = layout()
    reg, areas = registry()
    absent = ccn == "<absent>"  # no command code given at all (a response on its own; in a stream: the command's code was never decoded)
    if absent:
        ccn = None
    label = f"WALK/response/{'absent-code' if absent else (ccn or 'no-code')}{'/encrypted' if enc else ''}/{mode}"
    u = UnitResult(label)
    u.functions = ["tpmstream.io.binary.marshal:process_response"]
    contract = ProcessContract(L0["primitives"], min_size=min_size)
    stubs = walker_stubs(contract)
    path = base_path()[:1]
    if ccn is None:
        # the caller chooses where the decoded value sits (root_path): an error about the command code names that place
        from tpmstream.common.path import Path, PathNode
        path = Path((PathNode("outer"), PathNode("msg", 3)))
    strict = mode == "strict"
    fields = L0["frames"]["Response"]["fields"]
    SESS = int(TPM_ST.SESSIONS._value)
    pe_in = True if enc else None

    def run(ctx):
        if ccn:
            cc = cc_member(ccn)
        elif absent:
            cc = None
        else:
            # a command code outside the table (an integer that is no TPM_CC member)
            vals = [c["cc"] for c in L0["commands"].values()]
            cv = ctx.fresh_int("code", 0, 2**32 - 1)
            ctx.assume(z3.And([cv != x for x in vals]))
            cc = TypedStub.make(reg["TPM_CC"], S.SInt(cv))
        ctx.ghost["mode"] = mode
        I = Interp(ctx, stubs=stubs)
        igen = run_sync(I.call(M().process_response, (path,), {"command_code": cc, "parameter_encryption": pe_in, "abort_on_error": strict}))
        outcome = drive_coroutine(ctx, igen)
        tr = ctx.trace

        def spec(env):
            items = [("event", path, Response)]
            pcalls = iter([x[2] for x in tr if x[0] == "call" and x[1] == "process"])
            rcalls = iter([x[2] for x in tr if x[0] == "call" and x[1] in ("set_constraint", "assert_done")])
            pe_calls = iter([x[2] for x in tr if x[0] == "call" and x[1] == "is_parameter_encryption"])
            first = next((x[2] for x in tr if x[0] == "call" and x[1] == "process"), None)
            L = first["args"]["size_constraints"] if first else None
            values = {}
            R = {"rsp": None, "par": None}
            out = lambda o: {"items": items, "outcome": o, "L": L, "R": R}

            for f in fields:
                name = f["name"]
                if name in ("parameterSize", "authorizationArea") and not env.decide(typed_int(values["tag"]) == SESS):
                    continue
                if name in ("handles", "parameterSize", "parameters", "authorizationArea") and not env.decide(typed_int(values["responseCode"]) == 0):
                    continue  # failed response: header only
                want = {"path": sub(path, name), "size_constraints": L}
                if f["type"] == "Any":
                    if absent:
                        # the layout is unknowable: a value error about the command code, in both modes
                        return out(("raise-class", "ValueConstraintViolatedError"))
                    if ccn is None:
                        return out(("raise-class", "ValueConstraintViolatedError", {"constraint_path": path, "tpm_type": reg["TPM_CC"], "valid_values": ("values", (reg["TPM_CC"],)), "value": typed_int(cc)}))
                    want["type"] = areas[("rsp_handles" if name == "handles" else "rsp_params", ccn)]
                else:
                    want["type"] = f["type"]
                if name == "authorizationArea":
                    want["array_size_constraint"] = R["rsp"]
                want["parameter_encryption"] = pe_in if name == "parameters" else ANY
                items.append(("process", want))
                rec = next(pcalls, None)
                if rec is None:
                    return out(("return", None))
                if rec["case"] != "return":
                    exc = rec["exc"]
                    if not strict and type(exc).__name__ == "SizeConstraintExceededError" and exc.constraint is not None and exc.constraint in (R["rsp"], R["par"]):
                        items.append(("warning", exc))
                        return out(("return", (Response, dict(values))))
                    return out(("raise", exc))
                val = rec["result"]
                if name == "parameters" and "parameterSize" in values:
                    r = expect_close(items, rcalls, R["par"], strict)
                    if r is not None and r[0] == "raise":
                        return out(r)
                if name in ("responseSize", "parameterSize"):
                    sc = next(rcalls, None)
                    R["rsp" if name == "responseSize" else "par"] = sc["args"].get("self") if sc else None
                    items.append(("set_constraint", {"constraint_path": sub(path, name), "size_max": val, "other_size_constraints": L, "abort_on_error": strict}))
                    if sc is None:
                        return out(("return", None))
                    if sc.get("violated") is not None:
                        if strict:
                            return out(("raise", sc["exc"]))
                        items.append(("warning", sc["exc"]))
                if name == "authorizationArea" and val is not None:
                    pc = next(pe_calls, None)
                    items.append(("is_parameter_encryption", {"authorizationArea": val}))
                    if pc is None:
                        return out(("return", None))
                    b = pc["result"]
                    consistent = (env.decide(b.t) if isinstance(b, S.SBool) else bool(b)) == (pe_in is True)
                    if not consistent:
                        # the flag handed in disagrees with the response's own sessions: outside the well-formed inputs of
                        # C01/C03/C04/C07; C06/C08 still demand a documented outcome (obligation ENCFLAG/...)
                        return out(("mismatch",))
                values[name] = val
            r = expect_close(items, rcalls, R["rsp"], strict)
            if r is not None and r[0] == "raise":
                return out(r)
            return out(("return", (Response, dict(values))))

        def goal(exp):
            items = exp["items"]
            act, expi, g = [], [], {}
            ai = 0
            for e in items:
                if ai >= len(tr):
                    break
                a = tr[ai]
                if e[0] == "is_parameter_encryption":
                    ok = a[0] == "call" and a[1] == "is_parameter_encryption" and a[2]["args"]["authorizationArea"] is e[1]["authorizationArea"] and a[2]["args"]["for_response"] is True
                    g["trace/encrypt-flag-checked-against-this-responses-sessions"] = (ok, safe_repr(a)[:200])
                else:
                    act.append(a)
                    expi.append(e)
                ai += 1
            if exp["outcome"] == ("mismatch",):
                ctx.ghost["outside_contract"] = True
                bad = outcome[0] == "raise" and isinstance(outcome[1].exc, INTERNAL)
                return {"ENCFLAG/mismatch-of-flag-and-sessions-has-a-documented-outcome": (not bad, f"actual {safe_repr(outcome)}")}
            g["trace/length-total"] = (len(tr) == len(items), f"actual {summ2(tr)} expected {[i[0] for i in items]}")
            g.update(cmp_walk(ctx, act, outcome, {"items": expi, "outcome": exp["outcome"]}, mode))
            g.pop("trace/length", None)
            L, R = exp["L"], exp["R"]
            pcs = [x[2] for x in tr if x[0] == "call" and x[1] == "process"]
            if pcs:
                g["REGION/one-list-per-response"] = (L is not None and type(L).__name__ == "SizeConstraintList" and not I.note_is_shared(L), "constraint list missing or shared")
                if R["rsp"] is not None:
                    g["REGION/responseSize-counts-from-first-byte"] = (any(R["rsp"] is c for c in pcs[0]["live"]), "response region not live while the tag is decoded")
                if R["par"] is not None:
                    idx = next((i for i, p in enumerate(pcs) if p["args"]["path"][-1].name == "parameters"), None)
                    bef = next((i for i, p in enumerate(pcs) if p["args"]["path"][-1].name == "parameterSize"), None)
                    aft = next((i for i, p in enumerate(pcs) if p["args"]["path"][-1].name == "authorizationArea"), None)
                    if idx is not None:
                        ok = any(R["par"] is c for c in pcs[idx]["live"]) and (bef is None or all(R["par"] is not c for c in pcs[bef]["live"])) and (aft is None or all(R["par"] is not c for c in pcs[aft]["live"]))
                        g["REGION/parameterSize-region-governs-the-parameters-only"] = (ok, "parameter region wrongly scoped")
            return g

        finish_unit(ctx, outcome, [("TRACE", spec, goal)], "marshal.py:process_response")
        return outcome

    res = explore(run, max_paths=6000)
    u.add_paths(res, label)
    if res:
        u.samples.append({"unit": label, "paths": len(res), "longest_trace": summ2(max((r.ctx.trace for r in res), key=len))})
    return u


def command_result_hook(ctx, T, tag, a):
    """result object of a callee that decodes a Command: carries commandCode and (maybe) a session area"""
    from tpmstream.spec.commands import Command
    from tpmstream.spec.structures.constants import TPM_CC

    if T is not Command:
        return None
    obj = Command.__new__(Command)
    v = ctx.fresh_int(f"cc{tag}", 0, 2**32 - 1)
    object.__setattr__(obj, "commandCode", TypedStub.make(TPM_CC, S.SInt(v)))
    has_sessions = ctx.fork([z3.BoolVal(True), z3.BoolVal(True)], "command-has-sessions") == 0
    object.__setattr__(obj, "authorizationArea", Opaque("sessions", tag) if has_sessions else None)
    return obj


def unit_stream(mode):
    from tpmstream.spec.commands import Command, Response

    L0 = layout()
    label = f"WALK/stream/{mode}"
    u = UnitResult(label)
    u.functions = ["tpmstream.io.binary.marshal:process_command_response_stream"]
    contract = ProcessContract(L0["primitives"], result_hook=command_result_hook, min_size=min_size)
    stubs = walker_stubs(contract)
    loops = loop_specs()
    path = base_path()[:1]
    strict = mode == "strict"
    I_holder = [None]

    def check_iteration(ctx, outcome):
        tr = ctx.trace
        pcs = [x[2] for x in tr if x[0] == "call" and x[1] == "process"]
        pes = [x[2] for x in tr if x[0] == "call" and x[1] == "is_parameter_encryption"]
        site = "marshal.py:process_command_response_stream"

        def own_regions(sc):
            # each message is decoded with regions of its own: no list, or a fresh empty one - never the stream's
            return sc is None or (type(sc).__name__ == "SizeConstraintList" and sc is not ctx.ghost.get("stream_list") and not I_holder[0].note_is_shared(sc))

        ctx.record("STREAM/iteration-decodes-a-command-first", len(pcs) >= 1 and pcs[0]["args"]["tpm_type"] is Command and pcs[0]["args"]["path"] == path and pcs[0]["args"]["abort_on_error"] is strict, site=site)
        lists = [p["args"]["size_constraints"] for p in pcs[:2]]
        ok_lists = all(own_regions(sc) for sc in lists) and (len(lists) < 2 or lists[0] is None or lists[0] is not lists[1])
        ctx.record("STREAM/each-message-is-decoded-with-regions-of-its-own", ok_lists, site=site, detail="a constraint list is shared between messages of the stream" if not ok_lists else "")
        if pcs and pcs[0]["case"] != "return":
            ctx.record("STREAM/command-error-propagates", outcome is not None and outcome[0] == "raise" and outcome[1].exc is pcs[0]["exc"], site=site)
            return
        if len(pcs) < 2:
            ctx.record("STREAM/then-the-response", False, site=site, detail=summ2(tr).__repr__())
            return
        cmd = pcs[0]["result"]
        a = pcs[1]["args"]
        if cmd is None:
            return  # warn mode: the command decode gave up; the property says nothing about what follows
        ok = a["tpm_type"] is Response and a["path"] == path and a["abort_on_error"] is strict
        ctx.record("STREAM/then-the-response", ok, site=site)
        ctx.record("STREAM/response-uses-the-preceding-commands-code", a["command_code"] is getattr(cmd, "commandCode", None), site=site)
        # encrypted first parameter iff one of that command's sessions requested response encryption
        pe = a["parameter_encryption"]
        if getattr(cmd, "authorizationArea", None) is None:
            ctx.record("STREAM/response-encryption-iff-requested", pe is None, site=site, detail=f"no sessions, flag {pe!r}")
        else:
            okc = len(pes) == 1 and pes[0]["args"]["command"] is cmd and pes[0]["args"]["for_response"] is True and pes[0]["args"]["authorizationArea"] is None
            ctx.record("STREAM/response-encryption-asks-this-command", okc, site=site)
            if okc and isinstance(pes[0]["result"], S.SBool):
                b = pes[0]["result"].t
                if pe is None:
                    ctx.oblige("STREAM/response-encryption-iff-requested", z3.Not(b), site=site)
                elif pe is True or isinstance(pe, S.SBool):
                    ctx.oblige("STREAM/response-encryption-iff-requested", z3.And(b, S.bterm(pe)), site=site)
                else:
                    ctx.record("STREAM/response-encryption-iff-requested", False, site=site, detail=f"flag {pe!r}")
        if pcs[1]["case"] != "return":
            ctx.record("STREAM/response-error-propagates", outcome is not None and outcome[0] == "raise" and outcome[1].exc is pcs[1]["exc"], site=site)

    def run(ctx):
        ctx.ghost["mode"] = mode
        I = Interp(ctx, stubs=stubs, loop_specs=loops)
        I_holder[0] = I
        import inspect as _inspect
        from tpmstream.common.constraints import SizeConstraintList

        kw = {"abort_on_error": strict}
        if "size_constraints" in _inspect.signature(M().process_command_response_stream).parameters:
            # what the dispatcher hands to a walker that takes a constraint list: a fresh one per decode of the stream
            ctx.ghost["stream_list"] = kw["size_constraints"] = SizeConstraintList()
        igen = run_sync(I.call(M().process_command_response_stream, (path,), kw))
        from pyvc.interp import PathEnd
        try:
            outcome = drive_coroutine(ctx, igen)
        except PathEnd:
            check_iteration(ctx, None)
            ctx.record("no-internal-error", True, "safety")
            ctx.record("FRAME/no-write-to-shared-state", not ctx.frame_writes, "frame", detail="; ".join(ctx.frame_writes[:3]))
            raise
        check_iteration(ctx, outcome)
        if outcome[0] == "raise" and isinstance(outcome[1].exc, INTERNAL):
            ctx.record("no-internal-error", False, "safety", outcome[1].site or "", detail=repr(outcome[1].exc))
        elif outcome[0] == "return":
            ctx.record("STREAM/never-returns-by-itself", False, site="marshal.py:process_command_response_stream")
        ctx.record("FRAME/no-write-to-shared-state", not ctx.frame_writes, "frame", detail="; ".join(ctx.frame_writes[:3]))
        return outcome

    res = explore(run, max_paths=2000)
    u.add_paths(res, label)
    if res:
        u.samples.append({"unit": label, "paths": len(res)})
    return u


def unit_is_parameter_encryption(n):
    """the real is_parameter_encryption on an area of n sessions with symbolic attribute words and handles:
    True iff some session has the decrypt (command) / encrypt (response) bit, whatever the handles are; None area of a command -> False"""
    from tpmstream.spec.commands import Command
    from tpmstream.spec.structures.attribute_structures import TPMA_SESSION
    from tpmstream.spec.structures.structures import TPMS_AUTH_COMMAND
    from tpmstream.spec.structures.interface_types import TPMI_SH_AUTH_SESSION

    u = UnitResult(f"WALK/is_parameter_encryption/{n}-sessions")
    u.functions = ["tpmstream.io.binary.marshal:is_parameter_encryption"]
    m = M()
    for for_response in (False, True):
        for via_command in (False, True):
            def run(ctx, for_response=for_response, via_command=via_command):
                sessions = []
                words = []
                for i in range(n):
                    w = ctx.fresh_int(f"attrs{i}", 0, 255)
                    h = ctx.fresh_int(f"handle{i}", 0, 2**32 - 1)
                    words.append(w)
                    I0 = Interp(ctx)
                    attrs = run_sync(I0.call(TPMA_SESSION, (S.SInt(w),), {}))
                    sessions.append(TPMS_AUTH_COMMAND(sessionHandle=TypedStub.make(TPMI_SH_AUTH_SESSION, S.SInt(h)), nonce=None, sessionAttributes=attrs, hmac=None))
                I = Interp(ctx)
                try:
                    if via_command:
                        cmd = Command(authorizationArea=sessions)
                        r = run_sync(I.call(m.is_parameter_encryption, (), {"command": cmd, "for_response": for_response}))
                    else:
                        r = run_sync(I.call(m.is_parameter_encryption, (), {"authorizationArea": sessions, "for_response": for_response}))
                except PyExc as e:
                    ctx.record("no-internal-error", False, "safety", e.site or "", repr(e.exc)[:200])
                    return ("raise", e)
                bit = 6 if for_response else 5
                exp = z3.Or([S.bit_of(w, bit) == 1 for w in words]) if words else z3.BoolVal(False)
                if isinstance(r, S.SBool):
                    ctx.oblige("true-iff-some-session-has-the-bit", r.t == exp, site="marshal.py:is_parameter_encryption")
                elif isinstance(r, bool):
                    ctx.oblige("true-iff-some-session-has-the-bit", exp if r else z3.Not(exp), site="marshal.py:is_parameter_encryption", detail=f"returned {r}")
                else:
                    ctx.record("true-iff-some-session-has-the-bit", False, site="marshal.py:is_parameter_encryption", detail=f"returned {r!r}")
                return ("return", r)

            res = explore(run, max_paths=400)
            u.add_paths(res, f"WALK/is_parameter_encryption/{n}-sessions/{'response' if for_response else 'command'}/{'via-command' if via_command else 'area'}")
    if n == 0:
        def run0(ctx):
            I = Interp(ctx, force=[m.is_parameter_encryption])
            r = run_sync(I.call(m.is_parameter_encryption, (), {"command": Command(authorizationArea=None), "for_response": True}))
            ctx.record("command-without-sessions-requests-nothing", r is False, site="marshal.py:is_parameter_encryption", detail=repr(r))
            return ("return", r)
        u.add_paths(explore(run0), "WALK/is_parameter_encryption/no-area")
    return u


def unit_path():
    """contract of the path helpers every walker relies on (they run natively inside the units, and expected paths are
    built with them too, so their own behaviour is pinned here independently): `/` appends one node, slicing and [-1]
    select, with_index sets the index, text form joins the nodes with '.', from_string('.') is the root path"""
    from tpmstream.common.path import Path, PathNode, ROOT_PATH, PATH_NODE_ROOT_NAME
    from tpmstream.common.util import is_list
    from tpmstream.spec.structures.base_types import BYTE

    u = UnitResult("WALK/path-helpers")
    u.functions = ["tpmstream.common.path:Path", "tpmstream.common.path:PathNode", "tpmstream.common.util:is_list"]

    def ob(name, ok, detail=""):
        u.obligations.append({"name": f"WALK/path-helpers/{name}", "kind": "post", "site": "common/path.py", "status": "proved" if ok else "refuted", "backend": "evaluation", "seconds": 0, "model": None, "detail": detail})

    def key(p):
        return tuple((n.name, n.index) for n in tuple.__iter__(p))

    bad = []
    for depth in range(1, 10):
        nodes = [("", None)] + [(f"n{i}", (i if i % 2 else None)) for i in range(1, depth)]
        p = Path(PathNode(n, i) for n, i in nodes)
        if key(p) != tuple(nodes) or len(p) != depth or not isinstance(p, Path):
            bad.append(f"construct depth {depth}: {key(p)}")
        q = p / PathNode("child")
        if key(q) != tuple(nodes) + (("child", None),) or not isinstance(q, Path) or key(p) != tuple(nodes):
            bad.append(f"append at depth {depth}: {key(q)}")
        q2 = p + PathNode("c2")
        if key(q2) != tuple(nodes) + (("c2", None),):
            bad.append(f"+ at depth {depth}")
        if key(q[:-1]) != tuple(nodes) or not isinstance(q[:-1], Path) or (q[-1].name, q[-1].index) != ("child", None):
            bad.append(f"slice at depth {depth}")
        w = q[-1].with_index(7)
        if (w.name, w.index) != ("child", 7) or q[-1].index is not None:
            bad.append(f"with_index at depth {depth}")
        text = ".".join(n if i is None else f"{n}[{i}]" for n, i in nodes)
        if str(p) != text or repr(p) != text:
            bad.append(f"text at depth {depth}: {str(p)!r} expected {text!r}")
        if (p == Path(PathNode(n, i) for n, i in nodes)) is not True or (p == q) is not False:
            bad.append(f"equality at depth {depth}")
    ob("append-slice-index-text-equality", not bad, "; ".join(bad[:3]))
    bad = []
    A = [PathNode("a"), PathNode("a", 0), PathNode("a", 1), PathNode("b"), PathNode("b", 1), PathNode("", None)]
    for i, x in enumerate(A):
        for j, y in enumerate(A):
            if (x == y) is not (i == j) or (x != y) is not (i != j):
                bad.append(f"PathNode {x.name!r}[{x.index}] == {y.name!r}[{y.index}] gives {x == y}")
            px, py = Path((PathNode(""), PathNode("p"), x)), Path((PathNode(""), PathNode("p"), y))
            if (px == py) is not (i == j):
                bad.append(f"Path equality with last nodes {i},{j}")
            if i == j and (hash(px) != hash(Path((PathNode(""), PathNode("p"), PathNode(x.name, x.index)))) or PathNode(x.name, x.index) != x):
                bad.append(f"hash / rebuilt node {i}")
    p3 = Path((PathNode(""), PathNode("p"), PathNode("q", 3)))
    if p3 == p3[:-1] or p3[:-1] == p3 or p3 == tuple(tuple.__iter__(p3))[:2]:
        bad.append("a path equals its own prefix")
    ob("nodes-and-paths-are-equal-iff-names-and-indices-agree", not bad, "; ".join(bad[:3]))
    r = Path(PathNode(PATH_NODE_ROOT_NAME))
    ob("root-path", key(r) == (("", None),) and r == ROOT_PATH and Path.from_string(".") == r and key(Path.from_string(".")) == (("", None),) and str(r) == "", f"{key(Path.from_string('.'))}")
    ob("from-string", key(Path.from_string(".a.b")) == (("", None), ("a", None), ("b", None)), str(key(Path.from_string(".a.b"))))
    ob("is_list", is_list(list[BYTE]) is True and is_list(list) is True and is_list(BYTE) is False and is_list(dict) is False and is_list(None) is False)
    return u
