"""C10 — decoding is incremental: one byte of look-ahead, prefix-stable, source-agnostic."""
from checks import decoder_units as D
from checks.decoder_common import run_property


def jobs(tier):
    m = ("strict", "warn")
    from checks import c15
    front = [(c15.unit_hex, (list(range(i, min(i + 16, 256))),)) for i in range(0, 256, 16)] + [(c15.unit_swtpm, ()), (c15.unit_hex_entry, ()), (c15.unit_hex_entry, ("swtpm",))]
    front += [(c15.unit_wrapper, (w, k)) for w in ("hex", "swtpm") for k in ("opaque", "bytes", "bytearray", "list", "iterator")]
    front += [(c15.unit_hex_bounded, (6 if tier == "thorough" else 5, p, 8)) for p in range(8)]  # bounded: every short hex text from four kinds of source
    from checks import c19
    front += [(c19.unit_small, ())]  # the file front-end (bytes_from_files): every byte of every file, in order, however the bytes are split over files
    return D.g_pump(m) + D.g_leaf(("strict",), deep=1) + D.g_arrays(("strict",)) + D.g_structs(("strict",)) + D.g_frames(("strict",)) + front


def keep(name, ob):
    return "/C11/" not in name  # what a front-end returns is C11's business


def run(tier, seed, only=None):
    from checks.replay_decoder import replayer
    return run_property("C10", tier, seed, jobs(tier), keep,
                        "pump invariant pulled <= sent + 1 at every yield (both loops by the invariant rule, unbounded input); the only operations applied to the buffer are iter() and next() (any iterable); the leaf emits a field's event directly after its last byte and list walkers decode one element per iteration, so no walker reads ahead; prefix stability is the corollary (pump and processor are deterministic functions of the bytes sent so far, C12)",
                        only, replayer, min_obligations=2000,
                        extra_assumptions=["front-end scanners: every step consumes at most one input character and yields at most one byte (step obligations shared with C15); the wrappers hand the scanner - not a pre-converted buffer - to the decoder for every kind of source"])
