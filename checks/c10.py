"""C10 — decoding is incremental: one byte of look-ahead, prefix-stable, source-agnostic."""
from checks import decoder_units as D
from checks.decoder_common import run_property


def jobs(tier):
    m = ("strict", "warn")
    return D.g_pump(m) + D.g_leaf(("strict",), deep=1) + D.g_arrays(("strict",))


def keep(name, ob):
    return True


def run(tier, seed, only=None):
    from checks.replay_decoder import replayer
    return run_property("C10", tier, seed, jobs(tier), keep,
                        "pump invariant pulled <= sent + 1 at every yield (both loops by the invariant rule, unbounded input); the only operations applied to the buffer are iter() and next() (any iterable); the leaf emits a field's event directly after its last byte and list walkers decode one element per iteration, so no walker reads ahead; prefix stability is the corollary (pump and processor are deterministic functions of the bytes sent so far, C12)",
                        only, replayer, min_obligations=2000,
                        extra_assumptions=["lazy byte generators of the text front-ends are covered by C15's scanner obligations"])
