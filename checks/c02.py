"""C02 — re-encoding the events of a decodable input reproduces the input bytes."""
from __future__ import annotations

import z3

from pyvc import sym as S
from pyvc.explore import explore
from pyvc.harness import UnitResult
from pyvc.interp import Interp, run_sync, PyExc
from checks import decoder_units as D
from checks.decoder_common import run_property
from checks.common import layout, sym_equal, mod
from checks.leaf import be_int
from checks import c16

SEED = [0]


def unit_rt(tname):
    """RT[T]: to_bytes(MarshalEvent(p, T, T(be_int(b)))) = b for symbolic bytes b of the declared width"""
    from tpmstream.common.event import MarshalEvent
    from tpmstream.common.path import Path, PathNode

    U = mod("tpmstream.io.binary.unmarshal")
    T = c16.get_type(tname)
    P = layout()["primitives"][tname]
    u = UnitResult(f"C02/RT/{tname}")
    u.functions = ["tpmstream.io.binary.unmarshal:to_bytes", "tpmstream.spec.common.base_type:_INT.to_bytes", "tpmstream.spec.structures.constants:AlgValue.to_bytes"] + c16.FUNCS[:1]
    path = Path((PathNode(""), PathNode("f")))

    def run(ctx):
        bs = [ctx.fresh_int(f"b{i}", 0, 255) for i in range(P["width"])]
        v = z3.simplify(be_int(bs, P["signed"]))
        from pyvc.models import register_from_bytes
        register_from_bytes(ctx, v, bs, P["signed"])
        I = Interp(ctx)
        try:
            obj = run_sync(I.call(T, (S.lift_int(v),), {}))
            ev = MarshalEvent(path, T, obj)
            r = run_sync(I.call(U.to_bytes, (ev,), {}))
        except PyExc as e:
            ctx.record("no-internal-error", False, "safety", e.site or "", detail=repr(e.exc)[:200])
            return ("raise", e)
        exp = S.SBytes(bs)
        g = sym_equal(r, exp) if isinstance(r, (S.SBytes, bytes)) else False
        if isinstance(g, bool):
            ctx.record("primitive-event-re-encodes-to-its-input-slice", g, site="binary/unmarshal.py:to_bytes", detail=f"got {r!r}")
        else:
            ctx.oblige("primitive-event-re-encodes-to-its-input-slice", g, site="binary/unmarshal.py:to_bytes")
        ctx.record("FRAME/no-write-to-shared-state", not ctx.frame_writes, "frame", detail="; ".join(ctx.frame_writes[:3]))
        return ("return", r)

    res = explore(run, max_paths=5000)
    u.add_paths(res, f"C02/RT/{tname}")
    return u


def unit_struct():
    """structural and info events re-encode to nothing; unmarshal() yields one chunk per event, in order"""
    from tpmstream.common.event import MarshalEvent, WarningEvent, InfoEvent, ErrorEvent
    from tpmstream.common.error import ConstraintViolatedError
    from tpmstream.common.path import Path, PathNode
    from tpmstream.spec.commands import Command
    from tpmstream.spec.structures.base_types import UINT16, BYTE
    from contracts.decoder import TypedStub

    U = mod("tpmstream.io.binary.unmarshal")
    u = UnitResult("C02/STRUCT")
    u.functions = ["tpmstream.io.binary.unmarshal:to_bytes", "tpmstream.io.binary.unmarshal:unmarshal"]
    path = Path((PathNode(""), PathNode("s")))

    def run(ctx):
        I = Interp(ctx)
        err = ConstraintViolatedError("x")
        for nm, ev in (("structure", MarshalEvent(path, Command, ...)), ("list-parent", MarshalEvent(path, list[BYTE], ...)), ("warning", WarningEvent(error=err)),
                       ("info", InfoEvent(error=err)), ("error-event", ErrorEvent(error=err))):
            try:
                r = run_sync(I.call(U.to_bytes, (ev,), {}))
                ctx.record(f"{nm}-event-re-encodes-to-nothing", isinstance(r, bytes) and r == b"", site="binary/unmarshal.py:to_bytes", detail=repr(r))
            except PyExc as e:
                ctx.record(f"{nm}-event-re-encodes-to-nothing", False, site=e.site or "", detail=repr(e.exc))
        # info events wrapping every kind of error the decoder reports (with typed, plain-integer and absent offending values)
        import tpmstream.common.error as E
        from tpmstream.common.constraints import SizeConstraint, ValueConstraint
        from tpmstream.spec.common.values import ValidValues

        sc = SizeConstraint()
        sc.constraint_path, sc.size_max, sc.size_already = path, 4, 2
        vc = ValueConstraint(constraint_path=path, tpm_type=UINT16, valid_values=ValidValues(range(0, 4)))
        errs = {"value-error-typed": E.ValueConstraintViolatedError(vc, UINT16(0x42)), "value-error-int": E.ValueConstraintViolatedError(vc, 0x4242), "value-error-none": E.ValueConstraintViolatedError(vc, None),
                "exceeded": E.SizeConstraintExceededError(sc, violator_path=path, exceeded_by=1), "anticipated": E.AnticipatedSizeConstraintExceededError(sc, violator_path=path, violator_value=9, exceeded_by=1),
                "subceeded": E.SizeConstraintSubceededError(sc), "depleted": E.InputStreamBytesDepletedError(command_code=None), "superfluous": E.InputStreamSuperfluousBytesError(b"\x01\x02", command_code=None)}
        for en, e in errs.items():
            for cn, cls in (("warning", WarningEvent), ("error-event", ErrorEvent)):
                try:
                    r = run_sync(I.call(U.to_bytes, (cls(error=e),), {}))
                    ctx.record(f"{cn}-about-{en}-re-encodes-to-nothing", isinstance(r, bytes) and r == b"", site="binary/unmarshal.py:to_bytes", detail=repr(r))
                except PyExc as ex:
                    ctx.record(f"{cn}-about-{en}-re-encodes-to-nothing", False, site=ex.site or "", detail=repr(ex.exc))
        # unmarshal: one chunk per event, in order (3 abstract primitive events with symbolic values around structural ones)
        vals = [ctx.fresh_int(f"v{i}", 0, 65535) for i in range(3)]
        evs = [MarshalEvent(path, Command, ...)]
        for v in vals:
            evs.append(MarshalEvent(path, UINT16, TypedStub.make(UINT16, S.SInt(v))))
            evs.append(WarningEvent(error=err))
        # UINT16.to_bytes on the contract object: the real _INT.to_bytes is interpreted
        g = run_sync(I.call(U.unmarshal, (evs,), {}))
        chunks = run_sync(I.iterate_all(g))
        ok = len(chunks) == len(evs)
        ctx.record("unmarshal-yields-one-chunk-per-event", ok, site="binary/unmarshal.py:unmarshal", detail=f"{len(chunks)} chunks for {len(evs)} events")
        if ok:
            k = 0
            for ev, ch in zip(evs, chunks):
                if type(ev).__name__ == "MarshalEvent" and ev.value is not ...:
                    v = vals[k]
                    k += 1
                    exp = S.SBytes([z3.simplify((v / 256) % 256), z3.simplify(v % 256)])
                    gq = sym_equal(ch, exp) if isinstance(ch, (S.SBytes, bytes)) else False
                    ctx.oblige(f"unmarshal-chunk-{k}-is-that-events-bytes", gq, site="binary/unmarshal.py:unmarshal") if not isinstance(gq, bool) else ctx.record(f"unmarshal-chunk-{k}-is-that-events-bytes", gq, site="binary/unmarshal.py:unmarshal")
                else:
                    ctx.record("unmarshal-structural-chunk-empty", isinstance(ch, bytes) and ch == b"", site="binary/unmarshal.py:unmarshal")
        return ("return", None)

    res = explore(run)
    u.add_paths(res, "C02/STRUCT")
    return u


def unit_roundtrip(types, seed, n):
    """bounded end-to-end: b''.join(Binary.unmarshal(events)) == input on generated inputs (strict; warn with value faults)"""
    import os, random, sys
    from pyvc.harness import ROOT
    sys.path.insert(0, os.path.join(ROOT, "spec"))
    import crosscheck as X
    import witness
    from tpmstream.io.binary import Binary

    u = UnitResult(f"XRT/{types[0]}..{types[-1]}")
    rng = random.Random(seed)
    L = X.layout()
    total, dis = 0, []
    for t in types:
        for label, data, cc, e in X.candidates(t, rng, n, with_faults=False):
            variants = [("strict", data, label)]
            g = witness.Gen(L, rng)
            for mode, d, lab in variants:
                total += 1
                try:
                    T = X.resolve_type(t)
                    evs = list(Binary.marshal(tpm_type=T, buffer=d, command_code=X.cc_member(cc), parameter_encryption=True if e else None, abort_on_error=True))
                    out = b"".join(Binary.unmarshal(evs))
                    if out != d:
                        dis.append({"input": {"tpm_type": t, "hex": d.hex(), "command_code": cc, "mode": mode, "how_generated": lab}, "detail": f"re-encoded {out.hex()}", "site": t})
                except Exception as ex:
                    if type(ex).__name__ in ("AssertionError", "TypeError", "AttributeError", "KeyError", "IndexError"):
                        dis.append({"input": {"tpm_type": t, "hex": d.hex(), "command_code": cc, "mode": mode}, "detail": f"raised {ex!r}"[:200], "site": t})
    u.bounded.append({"name": f"round-trip/{types[0]}..{types[-1]}", "bound": f"{n} generated well-formed encodings per type, lists <= 3, buffers <= 6 bytes, seed {seed}", "evaluations": total, "disagreements": dis[:5]})
    u.obligations.append({"name": f"{u.name}/ran", "kind": "bounded-bookkeeping", "site": "", "status": "proved", "backend": "bookkeeping", "seconds": 0, "model": None, "detail": f"{total} inputs"})
    return u


def jobs(tier):
    names = sorted(t.__name__ for t in c16.prim_types())
    js = [(unit_rt, (n,)) for n in names] + [(unit_struct, ())]
    js += D.g_leaf(("strict", "warn"), deep=0)  # alignment: the Needs of a field directly precede its event
    js += D.g_pump(("strict",))
    # every walker consumes input only through its callees (the leaf in the end): no byte is taken without an event
    js += D.g_arrays(("strict",)) + D.g_structs(("strict",)) + D.g_frames(("strict",)) + D.g_dispatch(("strict",))
    L0 = layout()
    types = [t for t in sorted(L0["structs"]) + sorted(L0["tpm2b"]) if t != "TPM2B_ENCRYPTED_PARAM"] + ["Command", "Response", "CommandResponseStream"]
    n = 10 if tier == "thorough" else 2
    js += [(unit_roundtrip, (ch, SEED[0], n)) for ch in D.chunks(types, 15)]
    return js


def keep(name, ob):
    return True


def run(tier, seed, only=None):
    SEED[0] = seed
    from checks.replay_decoder import replayer as rd

    def replayer(obd):
        if obd["name"].startswith("C02/RT/"):
            tname = obd["name"].split("/")[2]
            T = c16.get_type(tname)
            P = layout()["primitives"][tname]
            m = obd.get("model") or {}
            bs = [m.get(k) for k in sorted(m) if k.startswith("b")][:P["width"]]
            import random
            rnd = random.Random(1)
            cands = []
            if len(bs) == P["width"] and all(isinstance(b, int) for b in bs):
                cands.append(bytes(bs))
            for it in P["allowed"]:
                vals = [it["point"]] if "point" in it else [it["range"][0], it["range"][1] - 1, (it["range"][0] + it["range"][1]) // 2]
                for v in vals:
                    try:
                        cands.append(v.to_bytes(P["width"], "big", signed=P["signed"]))
                    except OverflowError:
                        pass
            for _ in range(50):
                cands.append(bytes(rnd.randrange(256) for _ in range(P["width"])))
            from tpmstream.common.event import MarshalEvent
            from tpmstream.io.binary.unmarshal import to_bytes
            for b in cands:
                v = int.from_bytes(b, "big", signed=P["signed"])
                try:
                    out = to_bytes(MarshalEvent(None, T, T(v)))
                except Exception as e:
                    out = f"raises {e!r}"
                if out != b:
                    return {"reproduced": True, "input": {"type": tname, "bytes": b.hex()}, "expected": b.hex(), "actual": out.hex() if isinstance(out, bytes) else out}
            return {"reproduced": False}
        return rd(obd)

    return run_property("C02", tier, seed, jobs(tier), keep,
                        "RT[T] for all 102 primitive classes: the real constructor, unmarshal.to_bytes, _INT.to_bytes and the enum/AlgValue delegation interpreted over symbolic input bytes give back exactly those bytes; structural and info events give b''; unmarshal() yields one chunk per event in order; the leaf contract (both modes) puts a field's Needs directly before its event and the pump hands every input byte to the processor exactly once, so the concatenation is the consumed input",
                        only, replayer, min_obligations=1000,
                        extra_assumptions=["concatenation over the whole event stream follows by the induction of C01 (walkers consume bytes only inside leaf segments, except the recovery/padding cases that the property excludes)"])
