"""C19 — the command line is a faithful front-end to the decoder (wiring only; process-level behaviour is not applicable).

The real convert / parse_all_types / find_fields / cc_name / bytes_from_files are interpreted with the library entry points
replaced by recording stubs: what is printed is exactly what the selected front-end and printer produce for the file's
bytes, type and command code; refusals return non-zero without decoding."""
from __future__ import annotations

import os
import re
import types as _types

from pyvc.explore import explore, Ctx
from pyvc.harness import Report, UnitResult, run_units
from pyvc.interp import Interp, IGen, PyExc, run_sync
from checks.common import mod
from pyvc.harness import ROOT

ANSI = re.compile(r"\x1b\[[0-9;]*m")


def MAIN():
    return mod("tpmstream.__main__")


def _ob(u, name, ok, detail="", site="__main__.py"):
    u.obligations.append({"name": name, "kind": "post", "site": site, "status": "proved" if ok else "refuted", "backend": "evaluation", "seconds": 0, "model": None, "detail": detail})


def unit_convert():
    Mn = MAIN()
    from tpmstream.spec.commands import CommandResponseStream, Response, Command
    from tpmstream.spec.structures.constants import TPM_CC

    u = UnitResult("C19/CONVERT")
    u.functions = ["tpmstream.__main__:convert", "tpmstream.__main__:fuzzy_match", "tpmstream.__main__:cc_name"]
    fins = {"auto": Mn.Auto, "binary": Mn.Binary, "hex": Mn.Hex, "pcapng": Mn.Pcapng, "swtpm-log": Mn.SWTPMLog}
    fouts = {"binary": Mn.Binary, "events": Mn.Events, "pretty": Mn.Pretty}
    cases = [
        ("stream", None, None, ("decode", CommandResponseStream, None)),
        ("Command", "Command", None, ("decode", Command, None)),
        ("Response+GetRandom", "Response", "GetRandom", ("decode", Response, TPM_CC.GetRandom)),
        ("Response-without-command", "Response", None, ("refuse",)),
        ("unknown-type", "Comand", None, ("refuse",)),
        ("Response+unknown-command", "Response", "GetRandum", ("refuse",)),
        ("TPM2B_DIGEST", "TPM2B_DIGEST", None, ("decode", "TPM2B_DIGEST", None)),
    ]
    for fin_name, fin in fins.items():
        for fout_name, fout in fouts.items():
            for cname, typ, cmd, exp in cases:
                ctx = Ctx()
                calls = {"marshal": [], "unmarshal": [], "print": [], "files": []}
                EVENTS = object()
                FILES = object()
                BYTES = object()
                out_items = [b"\x80\x01", "line one", b"", "line two", b"\xff"]

                def mk_marshal(name):
                    def st(I, args, kwargs):
                        calls["marshal"].append((name, args, dict(kwargs)))
                        return EVENTS
                        yield
                    return st

                def mk_unmarshal(name):
                    def st(I, args, kwargs):
                        calls["unmarshal"].append((name, args, dict(kwargs)))
                        return iter(out_items)
                        yield
                    return st

                def print_stub(I, args, kwargs):
                    calls["print"].append((tuple(args), dict(kwargs)))
                    return None
                    yield

                def files_stub(I, args, kwargs):
                    calls["files"].append(args)
                    return BYTES
                    yield

                stubs = {print: print_stub, Mn.bytes_from_files: files_stub}
                for n, c in fins.items():
                    stubs[c.marshal] = mk_marshal(n)
                for n, c in fouts.items():
                    stubs[c.unmarshal] = mk_unmarshal(n)
                args = _types.SimpleNamespace(format_in=fin_name, format_out=fout_name, type=typ, command=cmd, file=FILES)
                I = Interp(ctx, stubs=stubs, force=[Mn.convert, Mn.fuzzy_match, Mn.cc_name])
                base = f"C19/CONVERT/{fin_name}/{fout_name}/{cname}"
                try:
                    ret = run_sync(I.call(Mn.convert, (args,), {}))
                    outcome = ("return", ret)
                except PyExc as e:
                    outcome = ("raise", type(e.exc).__name__)
                if exp[0] == "refuse":
                    ok = outcome[0] == "return" and isinstance(outcome[1], int) and outcome[1] != 0 and not calls["marshal"] and not calls["unmarshal"]
                    _ob(u, base + "/refused-with-non-zero-status-and-no-decode", ok, f"outcome {outcome}, marshal calls {len(calls['marshal'])}")
                    stderr_prints = [p for p in calls["print"] if p[1].get("file") is not None]
                    _ob(u, base + "/refusal-prints-a-message-to-stderr", len(stderr_prints) >= 1 and all(p[1].get("file") is __import__("sys").stderr for p in calls["print"]), f"{len(calls['print'])} print calls")
                    continue
                custom = exp[1] is not CommandResponseStream
                if custom and fin_name == "auto":
                    # a custom type with --in=auto is refused by an exception (documented in the help text); nothing is decoded
                    ok = outcome == ("raise", "RuntimeError") and not calls["marshal"]
                    _ob(u, base + "/custom-type-with-auto-input-is-refused", ok, f"outcome {outcome}")
                    continue
                _ob(u, base + "/exits-zero", outcome == ("return", 0), f"outcome {outcome}")
                m = calls["marshal"]
                ok = len(m) == 1 and m[0][0] == fin_name and not m[0][1]
                if ok:
                    kw = m[0][2]
                    T = kw.get("tpm_type")
                    ok = (T is exp[1] or getattr(T, "__name__", None) == exp[1]) and kw.get("command_code") is exp[2] and kw.get("buffer") is BYTES and kw.get("abort_on_error") is False and set(kw) == {"tpm_type", "buffer", "command_code", "abort_on_error"}
                _ob(u, base + "/selected-front-end-decodes-the-files-bytes-with-type-and-code-in-warn-mode", ok, f"{[(c[0], sorted(c[2])) for c in m]}")
                _ob(u, base + "/reads-the-given-files", len(calls["files"]) == 1 and tuple(calls["files"][0]) == (FILES,), str(calls["files"])[:100])
                un = calls["unmarshal"]
                _ob(u, base + "/selected-printer-gets-those-events", len(un) == 1 and un[0][0] == fout_name and tuple(un[0][1]) == (EVENTS,) and not un[0][2], f"{[(c[0]) for c in un]}")
                want = []
                for it in out_items:
                    if isinstance(it, bytes):
                        want.append(((" " + it.hex(),), {"end": ""}))
                    else:
                        want.append(((it,), {}))
                _ob(u, base + "/prints-exactly-what-the-printer-yields", calls["print"] == want, f"printed {calls['print'][:3]}")
    return u


def unit_names(part=0, parts=1):
    """--type / --command name lookup: a name is accepted iff it is exactly a type name / command-code name; every other
    spelling is refused (non-zero, message on stderr, no decode).  Evaluated for every command code and every type name with
    a family of near-miss spellings (one extra leading / trailing character, dropped first / last character, case changes,
    spec-style prefixes)."""
    Mn = MAIN()
    from tpmstream.spec import all_types
    from tpmstream.spec.commands import Response
    from tpmstream.spec.structures.constants import TPM_CC

    u = UnitResult(f"C19/NAMES/part{part}")
    u.functions = ["tpmstream.__main__:convert", "tpmstream.__main__:fuzzy_match", "tpmstream.__main__:cc_name"]
    cc_names = {Mn.cc_name(cc): cc for cc in TPM_CC}
    type_names = {t.__name__: t for t in all_types}

    def near_misses(n):
        out = {c + n for c in "TPMC_2tx "} | {n + c for c in "x_ 2"} | {n[1:], n[:-1], n.lower(), n.upper(), n.swapcase(), "TPM_CC_" + n, "TPM2_" + n, "CC_" + n, "PM_" + n, n + n}
        return sorted(x for x in out if x)

    def run(typ, cmd):
        ctx = Ctx()
        calls = {"marshal": [], "print": []}

        def marshal_stub(I, args, kwargs):
            calls["marshal"].append(dict(kwargs))
            return iter(())
            yield

        def unmarshal_stub(I, args, kwargs):
            return iter(())
            yield

        def print_stub(I, args, kwargs):
            calls["print"].append((tuple(args), dict(kwargs)))
            return None
            yield

        def files_stub(I, args, kwargs):
            return b""
            yield

        stubs = {print: print_stub, Mn.bytes_from_files: files_stub, Mn.Binary.marshal: marshal_stub, Mn.Pretty.unmarshal: unmarshal_stub}
        args = _types.SimpleNamespace(format_in="binary", format_out="pretty", type=typ, command=cmd, file=())
        I = Interp(ctx, stubs=stubs, force=[Mn.convert, Mn.fuzzy_match, Mn.cc_name])
        try:
            ret = run_sync(I.call(Mn.convert, (args,), {}))
            return ("return", ret), calls
        except PyExc as e:
            return ("raise", type(e.exc).__name__), calls

    bad = []
    n_ok = n_refused = 0
    for n, cc in list(cc_names.items())[part::parts]:
        out, calls = run("Response", n)
        if not (out == ("return", 0) and len(calls["marshal"]) == 1 and calls["marshal"][0].get("command_code") is cc and calls["marshal"][0].get("tpm_type") is Response):
            bad.append(f"--command {n}: {out}")
        n_ok += 1
        for x in near_misses(n):
            if x in cc_names:
                continue
            out, calls = run("Response", x)
            n_refused += 1
            if not (out[0] == "return" and isinstance(out[1], int) and out[1] != 0 and not calls["marshal"] and any(p[1].get("file") is not None for p in calls["print"])):
                bad.append(f"--command {x!r} is not a command code name but was not refused: {out}, {len(calls['marshal'])} decode(s)")
    _ob(u, f"C19/NAMES/part{part}/command-accepted-iff-exactly-a-command-code-name", not bad, f"{n_ok} names, {n_refused} near misses; " + "; ".join(bad[:4]))
    bad = []
    n_ok = n_refused = 0
    names = sorted(type_names)
    for n in (names[::7] + ["Command", "Response", "CommandResponseStream"])[part::parts]:
        T = type_names[n]
        if T is not Response:
            out, calls = run(n, None)
            ok = out == ("return", 0) and len(calls["marshal"]) == 1 and calls["marshal"][0].get("tpm_type") is T
            if not ok:
                bad.append(f"--type {n}: {out}")
            n_ok += 1
        for x in near_misses(n):
            if x in type_names:
                continue
            out, calls = run(x, "Startup")
            n_refused += 1
            if not (out[0] == "return" and isinstance(out[1], int) and out[1] != 0 and not calls["marshal"] and any(p[1].get("file") is not None for p in calls["print"])):
                bad.append(f"--type {x!r} is not a type name but was not refused: {out}")
    _ob(u, f"C19/NAMES/part{part}/type-accepted-iff-exactly-a-type-name", not bad, f"{n_ok} names, {n_refused} near misses; " + "; ".join(bad[:4]))
    return u


def unit_type_real(case):
    """`type`: the real parse_all_types with the real front-ends on concrete files: it lists exactly the (type, command code)
    pairs under which the file's bytes decode strictly - established independently by decoding with every candidate"""
    Mn = MAIN()
    from tpmstream.spec import all_types
    from tpmstream.spec.commands import CommandResponseStream, Response
    from tpmstream.spec.structures.constants import TPM_CC
    import tpmstream.common.error as E

    cases = {
        "hex-spaced-word": (Mn.Hex, b"00 00 01 44"), "hex-plain-word": (Mn.Hex, b"00000144"), "hex-newline-8-bytes": (Mn.Hex, b"00 00 00 00\n00 00 00 2a\n"),
        "binary-word": (Mn.Binary, bytes.fromhex("00000144")), "binary-one-byte": (Mn.Binary, b"\x01"), "binary-startup-command": (Mn.Binary, bytes.fromhex("80010000000c000001440000")),
        "hex-startup-response": (Mn.Hex, b"8001 0000000a\t00000000"), "binary-digest": (Mn.Binary, bytes.fromhex("0002aabb")), "binary-empty": (Mn.Binary, b""),
    }
    fmt, data = cases[case]
    u = UnitResult(f"C19/TYPE-REAL/{case}")
    u.functions = ["tpmstream.__main__:parse_all_types", "tpmstream.__main__:find_type"]
    want = []
    for t in all_types:
        if t is CommandResponseStream or t.__name__.startswith("TPMU"):
            continue
        for cc in (TPM_CC if t is Response else (None,)):
            try:
                list(fmt.marshal(tpm_type=t, buffer=data, command_code=cc, abort_on_error=True))
                want.append((t.__name__, None if cc is None else int(cc)))
            except (E.InputStreamBytesDepletedError, E.InputStreamSuperfluousBytesError, E.ConstraintViolatedError):
                pass
    try:
        got = [(type(c.object).__name__ if not isinstance(c.object, Response) else "Response", None if cc is None else int(cc)) for c, cc in Mn.parse_all_types(fmt, data)]
        detail = f"{len(got)} listed, {len(want)} decode strictly; missing {[w for w in want if w not in got][:4]}, extra {[g for g in got if g not in want][:4]}"
        ok = got == want
    except Exception as e:  # noqa
        ok, detail = False, f"parse_all_types raised {type(e).__name__}: {e}"
    _ob(u, f"C19/TYPE-REAL/{case}/lists-exactly-the-types-that-decode-strictly", ok, detail, site="__main__.py:parse_all_types")
    return u


TYPE_REAL_CASES = ["hex-spaced-word", "hex-plain-word", "hex-newline-8-bytes", "binary-word", "binary-one-byte", "binary-startup-command", "hex-startup-response", "binary-digest", "binary-empty"]

_CORPUS = {}


def example_corpus():
    """two synthetic 'capture files': well-formed command/response pairs for every command code (generated from the pinned
    layout), decoded by the library into objects"""
    if _CORPUS:
        return _CORPUS["files"]
    import random
    import sys

    sys.path.insert(0, os.path.join(ROOT, "spec"))
    import witness
    from checks.common import layout
    from tpmstream.common.object import events_to_objs
    from tpmstream.io.binary import Binary
    from tpmstream.spec.commands import CommandResponseStream

    L = layout()
    g = witness.Gen(L, random.Random(19))
    ccs = sorted(L["commands"])
    files = []
    for half in (ccs[::2], ccs[1::2] + ccs[:6]):  # the second file repeats a few codes (different random contents)
        data = b""
        for c in half:
            data += g.command(c, sessions=0) + g.response(c, sessions=0, rc=0)
        objs = list(events_to_objs(Binary.marshal(tpm_type=CommandResponseStream, buffer=data, abort_on_error=True)))
        files.append(objs)
    _CORPUS["files"] = files
    return files


def unit_examples(part=0, parts=1):
    """`example X`: the real examples() with the capture files replaced by the synthetic corpus (open / bytes_from_files /
    Auto.marshal / events_to_objs stubbed, everything else real).  For every command code and a sample of type names the
    printed text must be exactly: for each object in file order whose command code is X (commands by commandCode, responses by
    the code they answer) - or, for a type X, each sub-object of exactly type X of every object - once per distinct encoding:
    '<type name>: <hex chunks>', the pretty rows of that object's events, a blank line.  Names that are neither are refused."""
    import contextlib
    import io

    Mn = MAIN()
    from tpmstream.spec import all_types
    from tpmstream.spec.structures.constants import TPM_CC
    from tpmstream.common.object import obj_to_events
    from tpmstream.io.binary import Binary
    from tpmstream.io.pretty import Pretty
    import dataclasses

    u = UnitResult(f"C19/EXAMPLE/part{part}")
    u.functions = ["tpmstream.__main__:examples", "tpmstream.__main__:find_fields"]
    files = example_corpus()
    cc_names = {Mn.cc_name(cc): cc for cc in TPM_CC}
    type_names = {t.__name__: t for t in all_types}

    def sub_objects(T, obj):
        if type(obj) is T:
            yield obj
        if dataclasses.is_dataclass(obj) and not isinstance(obj, type):
            for f in dataclasses.fields(obj):
                yield from sub_objects(T, getattr(obj, f.name))

    def block(obj):
        evs = list(obj_to_events(obj))
        chunks = list(Binary.unmarshal(evs))
        text = f"{type(obj).__name__}:" + "".join(" " + c.hex() for c in chunks) + "\n"
        text += "".join(line + "\n" for line in Pretty.unmarshal(evs)) + "\n"
        return b"".join(chunks), text

    def expected(name):
        seen, out = set(), ""
        for objs in files:
            for obj in objs:
                if name in cc_names:
                    cc = cc_names[name]
                    code = getattr(obj, "commandCode", None) if hasattr(obj, "commandCode") else getattr(obj, "_command_code", None)
                    sel = [obj] if code is not None and int(code) == int(cc) else []
                else:
                    sel = list(sub_objects(type_names[name], obj))
                for o in sel:
                    b, text = block(o)
                    if b in seen:
                        continue
                    seen.add(b)
                    out += text
        return out

    def run(name):
        tokens = [object() for _ in files]
        state = {"i": -1}

        class _F:
            def __enter__(self):
                return self

            def __exit__(self, *a):
                return False

        def fake_open(path, mode="r"):
            state["i"] += 1
            return _F()

        class _Auto:
            @staticmethod
            def marshal(**kw):
                return tokens[state["i"]]

        saved = {k: Mn.__dict__.get(k, _MISSING) for k in ("example_data_files", "open", "bytes_from_files", "Auto", "events_to_objs")}
        try:
            Mn.example_data_files = [f"file{i}" for i in range(len(files))]
            Mn.open = fake_open
            Mn.bytes_from_files = lambda f: b""
            Mn.Auto = _Auto
            Mn.events_to_objs = lambda ev: iter(files[tokens.index(ev)])
            buf, err = io.StringIO(), io.StringIO()
            with contextlib.redirect_stdout(buf), contextlib.redirect_stderr(err):
                try:
                    ret = Mn.examples(_types.SimpleNamespace(command=name))
                except Exception as e:  # noqa
                    ret = f"raised {type(e).__name__}: {e}"
            return ret, buf.getvalue(), err.getvalue()
        finally:
            for k, v in saved.items():
                if v is _MISSING:
                    Mn.__dict__.pop(k, None)
                else:
                    setattr(Mn, k, v)

    names = sorted(cc_names) + sorted(type_names)[::5] + ["TPMT_PUBLIC", "TPM2B_DIGEST", "TPMS_AUTH_COMMAND", "TPM_CC", "TPMA_OBJECT"]
    bad = []
    shown = 0
    for n in names[part::parts]:
        if n not in cc_names and n not in type_names:
            continue
        ret, out, err = run(n)
        exp = expected(n)
        shown += exp.count("\n\n")
        if ret != 0 or ANSI.sub("", out) != ANSI.sub("", exp):
            a, b = ANSI.sub("", out).splitlines(), ANSI.sub("", exp).splitlines()
            k = next((i for i, (x, y) in enumerate(zip(a, b)) if x != y), min(len(a), len(b)))
            bad.append(f"example {n}: returned {ret!r}, {len(a)} lines printed, {len(b)} expected; first difference at line {k}: {a[k][:80] if k < len(a) else None!r} vs {b[k][:80] if k < len(b) else None!r}")
    _ob(u, f"C19/EXAMPLE/part{part}/prints-exactly-the-examples-of-the-sought-command-code-or-type-once-each", not bad, f"{len(names[part::parts])} names, {shown} example blocks; " + "; ".join(bad[:3]), site="__main__.py:examples")
    if part == 0:
        bad = []
        for n in ("Startupp", "TStartup", "startup", "TPM2B_DIGES", "tpm2b_digest", "TPM_CC_Startup"):
            ret, out, err = run(n)
            if not (isinstance(ret, int) and ret != 0 and out == "" and err):
                bad.append(f"example {n!r}: returned {ret!r}, printed {len(out)} characters")
        _ob(u, "C19/EXAMPLE/unknown-name-is-refused-with-a-suggestion-and-prints-no-example", not bad, "; ".join(bad[:3]), site="__main__.py:examples")
        ret, out, err = run(None)
        _ob(u, "C19/EXAMPLE/without-a-name-lists-every-command-code-name", out.splitlines() == [Mn.cc_name(cc) for cc in TPM_CC], f"{len(out.splitlines())} lines", site="__main__.py:examples")
    return u


_MISSING = object()


def unit_parse_all_types():
    Mn = MAIN()
    from tpmstream.spec import all_types
    from tpmstream.spec.commands import CommandResponseStream, Response
    from tpmstream.spec.structures.constants import TPM_CC
    import tpmstream.common.error as E

    u = UnitResult("C19/TYPE")
    u.functions = ["tpmstream.__main__:parse_all_types"]
    FMT, BUF = object(), object()
    expected = []
    for t in all_types:
        if t is CommandResponseStream or t.__name__.startswith("TPMU"):
            continue
        for cc in (TPM_CC if t is Response else (None,)):
            expected.append((t, cc))

    def run_with(raiser):
        ctx = Ctx()
        calls = []

        def canonical_stub(I, args, kwargs):
            calls.append(dict(kwargs))
            exc = raiser(kwargs)
            if exc is not None:
                raise PyExc(exc, "Canonical")
            return ("OK", kwargs.get("tpm_type"), kwargs.get("command_code"))
            yield

        I = Interp(ctx, stubs={Mn.Canonical: canonical_stub}, force=[Mn.parse_all_types])
        g = run_sync(I.call(Mn.parse_all_types, (FMT, BUF), {}))
        try:
            out = run_sync(I.iterate_all(g))
            return calls, out, None
        except PyExc as e:
            return calls, None, e.exc

    calls, out, exc = run_with(lambda kw: None)
    ok = exc is None and [(c.get("tpm_type"), c.get("command_code")) for c in calls] == expected
    _ob(u, "C19/TYPE/tries-every-type-except-unions-and-the-stream-and-every-command-code-for-responses", ok, f"{len(calls)} attempts, expected {len(expected)}")
    ok = exc is None and all(c.get("input") is BUF and c.get("format_in") is FMT and c.get("abort_on_error") is True and c.get("lazy") is False for c in calls)
    _ob(u, "C19/TYPE/decodes-the-files-bytes-strictly-and-eagerly", ok)
    ok = exc is None and out is not None and len(out) == len(expected) and all(o[0] == ("OK", t, cc) and o[1] is cc for o, (t, cc) in zip(out, expected))
    _ob(u, "C19/TYPE/lists-exactly-the-successes-with-their-command-code", ok)
    documented = [E.InputStreamBytesDepletedError(), E.InputStreamSuperfluousBytesError(b""), E.ConstraintViolatedError("x"), E.ValueConstraintViolatedError.__new__(E.ValueConstraintViolatedError),
                  E.SizeConstraintExceededError.__new__(E.SizeConstraintExceededError)]
    for ex in documented:
        k = [0]
        def raiser(kw, ex=ex):
            k[0] += 1
            return ex if k[0] % 2 == 0 else None
        calls, out, exc = run_with(raiser)
        ok = exc is None and out is not None and len(out) == (len(expected) + 1) // 2
        _ob(u, f"C19/TYPE/a-type-failing-with-{type(ex).__name__}-is-left-out-silently", ok, f"{None if out is None else len(out)} listed, raised {exc!r}")
    for ex in (AssertionError("x"), KeyError("x"), RuntimeError("x")):
        k = [0]
        def raiser(kw, ex=ex):
            k[0] += 1
            return ex if k[0] == 3 else None
        calls, out, exc = run_with(raiser)
        _ob(u, f"C19/TYPE/an-internal-{type(ex).__name__}-is-not-swallowed", exc is ex, f"raised {exc!r}")
    return u


def unit_small():
    """find_fields, cc_name, bytes_from_files"""
    Mn = MAIN()
    IO = mod("tpmstream.io")
    from tpmstream.spec.structures.constants import TPM_CC

    u = UnitResult("C19/SMALL")
    u.functions = ["tpmstream.__main__:find_fields", "tpmstream.__main__:cc_name", "tpmstream.io:bytes_from_files"]
    ok = all(Mn.cc_name(cc) == cc._name for cc in TPM_CC) and len({Mn.cc_name(cc) for cc in TPM_CC}) == len(list(TPM_CC))
    _ob(u, "C19/SMALL/cc_name-is-the-member-name-for-every-command-code", ok)
    # find_fields: exactly the sub-objects whose type is the sought one (no subclasses), in field order
    from tpmstream.spec.structures.structures import TPM2B_DIGEST, TPM2B_NONCE, TPM2B_AUTH, TPMS_AUTH_COMMAND
    from tpmstream.spec.structures.base_types import UINT16
    d1, n1, a1 = TPM2B_DIGEST(size=UINT16(0), buffer=[]), TPM2B_NONCE(size=UINT16(0), buffer=[]), TPM2B_AUTH(size=UINT16(0), buffer=[])
    sess = TPMS_AUTH_COMMAND(sessionHandle=None, nonce=n1, sessionAttributes=None, hmac=a1)
    ctx = Ctx()
    I = Interp(ctx)
    def ff(T, obj):
        return run_sync(I.iterate_all(run_sync(I.call(Mn.find_fields, (), {"tpm_type": T, "obj": obj}))))
    _ob(u, "C19/SMALL/find_fields-yields-only-objects-of-exactly-the-sought-type", [id(x) for x in ff(TPM2B_DIGEST, sess)] == [] and [id(x) for x in ff(TPM2B_NONCE, sess)] == [id(n1)] and [id(x) for x in ff(TPM2B_AUTH, sess)] == [id(a1)]
        and [id(x) for x in ff(TPM2B_DIGEST, d1)] == [id(d1)] and [id(x) for x in ff(TPMS_AUTH_COMMAND, sess)] == [id(sess)], "subclasses TPM2B_NONCE / TPM2B_AUTH of TPM2B_DIGEST must not be reported for TPM2B_DIGEST")
    # bytes_from_files: every byte of every file, in order, nothing dropped (all 256 values as last byte, text-mode wrapper)
    class F:
        """file object: read() / read(n) from the current position, b"" at end of file"""
        def __init__(self, data, mode="rb", inner=None):
            self.data, self.mode, self.buffer, self.pos = data, mode, inner, 0
        def read(self, n=-1):
            end = len(self.data) if n is None or n < 0 else min(len(self.data), self.pos + n)
            chunk = self.data[self.pos:end]
            self.pos = end
            return chunk

    def feed(files):
        # the real function on concrete file objects, run by CPython itself
        try:
            return bytes(IO.bytes_from_files(files))
        except Exception as e:  # noqa
            return f"{type(e).__name__}: {e}".encode()
    bad = []
    for last in range(256):
        data = bytes([0x80, 0x01, 0x0A, last])
        f1, f2 = F(data), F(b"", mode="r", inner=F(bytes([last, 0x0D])))
        out = feed((f1, f2))
        if bytes(out) != data + bytes([last, 0x0D]):
            bad.append(f"{data.hex()}+{last:02x}0d -> {bytes(out).hex()}")
    big = bytes(range(256)) * 40  # longer than any plausible read chunk
    for files, want in (((F(b"ab"), F(b""), F(b"cd")), b"abcd"), ((F(b""), F(b"xy")), b"xy"), ((F(b"q"),), b"q"), ((), b""), ((F(b"one"), F(b"two"), F(b"three")), b"onetwothree"),
                        ((F(big), F(b"tail")), big + b"tail"), ((F(b"head"), F(big)), b"head" + big)):
        out = feed(files)
        if bytes(out) != want:
            bad.append(f"{len(files)} files with an empty one -> {bytes(out)!r} expected {want!r}")
    _ob(u, "C19/SMALL/bytes_from_files-yields-every-byte-of-every-file-in-order", not bad, "; ".join(bad[:3]), site="io/__init__.py:bytes_from_files")
    # incremental (C10): a later file is not touched before the bytes of the earlier ones have been handed out
    lazy_bad = []
    for sizes in ((3, 2), (1, 1, 1), (5, 0, 4)):
        fs = tuple(F(bytes(range(10 * i, 10 * i + n))) for i, n in enumerate(sizes))
        try:
            g = iter(IO.bytes_from_files(fs))
            taken = 0
            for b in g:
                taken += 1
                k = 0  # index of the file this byte came from
                acc = 0
                for i, n in enumerate(sizes):
                    acc += n
                    if taken <= acc:
                        k = i
                        break
                later = [j for j in range(k + 1, len(fs)) if fs[j].pos > 0]
                if later:
                    lazy_bad.append(f"files of {sizes} bytes: after byte {taken} (from file {k}) file {later[0]} had already been read")
                    break
        except Exception as e:  # noqa
            lazy_bad.append(f"files of {sizes} bytes: {type(e).__name__}: {e}")
    _ob(u, "C19/SMALL/C10/bytes_from_files-does-not-read-a-later-file-before-the-earlier-bytes-are-handed-out", not lazy_bad, "; ".join(lazy_bad[:3]), site="io/__init__.py:bytes_from_files")
    return u


def replayer(obd):
    return {"reproduced": True, "detail": obd.get("detail")}


def run(tier, seed, only=None):
    rep = Report("C19", tier, seed, "other", "./check C19 (pyvc: the real convert / parse_all_types / find_fields / bytes_from_files interpreted with recording stubs for the library entry points)",
                 explanation="wiring of the CLI functions only: for every input format x output format x type/command choice convert() hands the files' bytes, the resolved type and command code to the selected front-end in warn mode, the events to the selected printer, and prints exactly what the printer yields (bytes chunks as ' '+hex); refusals return non-zero without decoding; parse_all_types tries every type except unions and the stream (Response x every command code) strictly, leaves out exactly the documented failures and lists the successes. Exit statuses through argparse/sys.exit, terminal encoding, difflib suggestions and `example` over the bundled capture files are process-level I/O / third-party behaviour: not applicable to function contracts and not claimed")
    rep.trusted_base = ["pyvc's reading of Python", "argparse, sys.exit, difflib, file objects: not modelled (not claimed)"]
    rep.assumptions = ["the library calls are stubs here: their behaviour is C01-C15"]
    rep.replayer = replayer
    jobs = [(unit_convert, ())] + [(unit_names, (i, 12)) for i in range(12)] + [(unit_examples, (i, 8)) for i in range(8)] + [(unit_type_real, (c,)) for c in TYPE_REAL_CASES] + [(unit_parse_all_types, ()), (unit_small, ())]
    if only:
        jobs = [j for j in jobs if only in repr(j)]
    units = run_units(jobs)
    for un in units:
        un.obligations = [o for o in un.obligations if "/C10/" not in o["name"]]  # when a file is read is C10's business
    rep.add(units)
    rep.min_obligations = 100
    return rep.finish()
