"""C14 — the printers show every event and every byte exactly once, in order.

proved:   row layout (`format`, `get_type_name`, `pretty`, `format_info`) by symbolic execution over symbolic bytes / opaque value text
          and all path depths; attribute bit rows are C17's obligations.
bounded:  the stream level (list folding, order, one row per event) by exhaustive enumeration of abstract event streams up
          to a length bound over the alphabet of event kinds the decoder can produce, real printers against a spec printer
          written from the property statement."""
from __future__ import annotations

import itertools
import re

import z3

from pyvc import sym as S
from pyvc.explore import explore
from pyvc.harness import Report, UnitResult, run_units
from pyvc.interp import Interp, PyExc, run_sync
from checks.common import mod, sym_equal

ANSI = re.compile(r"\x1b\[[0-9;]*m")
ROW = re.compile(r"^\x1b\[34m(?P<type>[^\x1b]*)\x1b\[0m *  ?\x1b\[30m(?P<indent>[^\x1b]*)\x1b\[0m\x1b\[92m\.(?P<name>[^\x1b]*)\x1b\[0m * \x1b\[33m(?P<hex>[0-9a-f]*) *\x1b\[0m (?:\x1b\[33m(?P<value>.*)\x1b\[0m)?$", re.S)
INFO = re.compile(r"^\x1b\[31m(?P<text>.*)\x1b\[0m$", re.S)


def P():
    return mod("tpmstream.io.pretty.unmarshal")


# ---------------------------------------------------------------------------------------------
# proved part: row layout


def unit_format():
    from tpmstream.common.path import Path, PathNode
    from tpmstream.spec.structures.base_types import UINT16, BYTE
    from tpmstream.spec.commands import Command

    u = UnitResult("C14/FORMAT")
    u.functions = ["tpmstream.io.pretty.unmarshal:format", "tpmstream.io.pretty.unmarshal:get_type_name"]
    types = [(UINT16, "UINT16"), (Command, "Command"), (list[BYTE], "list[BYTE]"), (None, "")]
    for depth in range(1, 9):
        for nbytes in (None, 0, 1, 2, 4, 8, 10, 11, 32):
            for T, tn in types:
                for has_value in (True, False):
                    def run(ctx, depth=depth, nbytes=nbytes, T=T, tn=tn, has_value=has_value):
                        path = Path([PathNode("")] + [PathNode(f"n{i}", index=(i if i % 3 == 0 else None)) for i in range(1, depth)]) if depth > 1 else Path(PathNode(""))
                        bs = None if nbytes is None else [ctx.fresh_int(f"b{i}", 0, 255) for i in range(nbytes)]
                        binary = None if bs is None else (S.SBytes(bs) if bs else b"")
                        value = S.SStr([S.Opaque("value-text")]) if has_value else ...
                        I = Interp(ctx)
                        try:
                            row = run_sync(I.call(P().format, (T, path, binary, value), {}))
                        except PyExc as e:
                            ctx.record("no-internal-error", False, "safety", e.site or "", repr(e.exc)[:200])
                            return ("raise", e)
                        # spec: <type padded to 50> ' ' <indent '|   ' x (depth-1) + '.' + last node, padded to 64> ' ' <hex padded to 20> ' ' <value>
                        type_col = f"\x1b[34m{tn}\x1b[0m"
                        name_col = "\x1b[30m" + "|   " * (depth - 1) + "\x1b[0m" + "\x1b[92m." + str(path[-1]) + "\x1b[0m"
                        first = f"{type_col: <50} {name_col: <64}"
                        hexparts = [S.FmtInt(b, "02x", width=2) for b in (bs or [])]
                        pad = " " * max(0, 20 - 2 * len(hexparts))
                        exp = S.mk_str([first, " \x1b[33m"] + hexparts + [pad, "\x1b[0m", " "] + (["\x1b[33m", value, "\x1b[0m"] if has_value else []))
                        g = sym_equal(row, exp)
                        if isinstance(g, bool):
                            ctx.record("row-is-type-indented-name-hex-of-the-bytes-value-text", g, site="pretty/unmarshal.py:format", detail=f"row {row!r}")
                        else:
                            ctx.oblige("row-is-type-indented-name-hex-of-the-bytes-value-text", g, site="pretty/unmarshal.py:format")
                        return ("return", row)

                    res = explore(run)
                    u.add_paths(res, f"C14/FORMAT/depth{depth}/bytes{nbytes}/{tn or 'notype'}/{'value' if has_value else 'novalue'}")
    return u


def unit_format_layout_paths():
    """the real row formatter on every path the decoder can produce: (depth, label) pairs collected by walking the pinned layout
    from every command and response (all union arms, list elements with a one- and a three-digit index): a row comes out (no
    error whatever the depth and the length of the label), indented by the depth, showing the label"""
    from tpmstream.common.path import Path, PathNode

    Pm = P()
    from checks.common import layout as layout_

    L = layout_()
    u = UnitResult("C14/FORMAT-PATHS")
    u.functions = ["tpmstream.io.pretty.unmarshal:format"]
    seen = set()

    def walk(tname, depth, stack):
        if tname.startswith("list["):
            walk(tname[5:-1], depth, stack)
            return
        if tname in stack:
            return
        if tname in L["structs"] or tname in L["tpm2b"]:
            ent = L["structs"].get(tname) or L["tpm2b"][tname]
            fields = ent["fields"]
        elif tname in L["unions"]:
            fields = L["unions"][tname]["members"]
        else:
            return
        for f in fields:
            is_list = f["type"].startswith("list[")
            for label in ([f["name"]] if not is_list else [f["name"], f"{f['name']}[7]", f"{f['name']}[255]"]):
                seen.add((depth + 1, label))
            walk(f["type"], depth + 1 + (0 if not is_list else 0), stack + [tname])

    for ccn, ent in L["commands"].items():
        for area in ("cmd_handles", "cmd_params", "rsp_handles", "rsp_params"):
            for f in ent[area]["fields"]:
                is_list = f["type"].startswith("list[")
                for label in ([f["name"]] if not is_list else [f["name"], f"{f['name']}[7]"]):
                    seen.add((2, label))
                walk(f["type"], 2, [])
    for frame in ("Command", "Response"):
        for f in L["frames"][frame]["fields"]:
            seen.add((1, f["name"]))
    walk("TPMS_AUTH_COMMAND", 2, [])
    walk("TPMS_AUTH_RESPONSE", 2, [])
    # the same in a stream (one level deeper)
    seen |= {(d + 1, lab) for d, lab in list(seen)}
    bad = []
    for depth, label in sorted(seen):
        name, idx = (label, None) if "[" not in label else (label[:label.index("[")], int(label[label.index("[") + 1:-1]))
        path = Path([PathNode("")] + [PathNode(f"n{i}") for i in range(depth - 1)] + [PathNode(name, idx)])
        for data, value in ((b"", ""), (b"\x00\x2a", "42")):
            try:
                row = Pm.format(None, path, data, value)
                m = ROW.match(row)
                if not m or len(m.group("indent")) // 4 != depth or m.group("name") != label or m.group("hex") != data.hex():
                    bad.append(f"depth {depth} label {label!r}: row {ANSI.sub('', row)!r}")
            except Exception as e:  # noqa
                bad.append(f"depth {depth} label {label!r}: {type(e).__name__}: {e}")
    u.obligations.append({"name": "C14/FORMAT-PATHS/a-row-for-every-path-of-the-layout", "kind": "post", "site": "pretty/unmarshal.py:format", "status": "refuted" if bad else "proved", "backend": "evaluation",
                          "seconds": 0, "model": None, "detail": f"{len(seen)} (depth, label) pairs; " + "; ".join(bad[:3])})
    return u


def unit_pretty():
    """pretty(event): exactly one row; for a field event = format(type, path, to_bytes(event), text of the value); info event = red text of the event"""
    from tpmstream.common.event import MarshalEvent, WarningEvent
    from tpmstream.common.error import ConstraintViolatedError
    from tpmstream.common.path import Path, PathNode
    from tpmstream.spec.structures.base_types import UINT16
    from tpmstream.spec.commands import Command
    from contracts.decoder import TypedStub

    u = UnitResult("C14/PRETTY")
    u.functions = ["tpmstream.io.pretty.unmarshal:pretty", "tpmstream.io.pretty.unmarshal:format_info"]
    Pm = P()
    B = mod("tpmstream.io.binary.unmarshal")
    path = Path((PathNode(""), PathNode("x")))

    def run(ctx):
        calls = []

        def fmt_stub(I, args, kwargs):
            calls.append(args)
            return ("ROW", len(calls))
            yield

        v = ctx.fresh_int("v", 0, 65535)
        val = TypedStub.make(UINT16, S.SInt(v))
        I = Interp(ctx, stubs={Pm.format: fmt_stub})
        # primitive event
        ev = MarshalEvent(path, UINT16, val)
        rows = run_sync(I.iterate_all(run_sync(I.call(Pm.pretty, (ev,), {}))))
        ok = len(rows) == 1 and len(calls) == 1 and rows[0] == ("ROW", 1)
        ctx.record("primitive-event-is-exactly-one-row", ok, site="pretty/unmarshal.py:pretty")
        if ok:
            a = calls[0]
            ctx.record("row-built-from-the-events-type-and-path", a[0] is UINT16 and a[1] == path, site="pretty/unmarshal.py:pretty")
            exp_bytes = S.SBytes([z3.simplify((v / 256) % 256), z3.simplify(v % 256)])
            g = sym_equal(a[2], exp_bytes) if isinstance(a[2], (S.SBytes, bytes)) else False
            ctx.oblige("hex-column-is-the-events-bytes", g, site="pretty/unmarshal.py:pretty") if not isinstance(g, bool) else ctx.record("hex-column-is-the-events-bytes", g, site="pretty/unmarshal.py:pretty", detail=repr(a[2]))
            g = sym_equal(a[3], S.mk_str([S.FmtInt(v, "")]))
            ctx.oblige("value-column-is-the-values-text-form", g, site="pretty/unmarshal.py:pretty") if not isinstance(g, bool) else ctx.record("value-column-is-the-values-text-form", g, site="pretty/unmarshal.py:pretty", detail=repr(a[3]))
        # structural event
        calls.clear()
        ev = MarshalEvent(path, Command, ...)
        rows = run_sync(I.iterate_all(run_sync(I.call(Pm.pretty, (ev,), {}))))
        ok = len(rows) == 1 and len(calls) == 1 and calls[0][0] is Command and calls[0][1] == path and calls[0][2] == b"" and calls[0][3] in ("", ...)
        ctx.record("structure-event-is-exactly-one-row-without-bytes", ok, site="pretty/unmarshal.py:pretty", detail=repr(calls)[:200])
        # info event
        calls.clear()
        w = WarningEvent(error=ConstraintViolatedError("boom"))
        rows = run_sync(I.iterate_all(run_sync(I.call(Pm.pretty, (w,), {}))))
        ok = len(rows) == 1 and not calls and isinstance(rows[0], str) and ANSI.sub("", rows[0]) == str(w)
        ctx.record("warning-is-exactly-one-row-with-its-text", ok, site="pretty/unmarshal.py:pretty", detail=repr(rows)[:200])
        # pretty_attrs on anything that is not an attribute word: no rows, no error (whoever calls it)
        for nm, e in (("structure-event", MarshalEvent(path, Command, ...)), ("plain-integer-event", MarshalEvent(path, UINT16, val))):
            try:
                rows = run_sync(I.iterate_all(run_sync(I.call(Pm.pretty_attrs, (e,), {}))))
                ctx.record(f"bit-rows-of-a-{nm}-are-none", rows == [], site="pretty/unmarshal.py:pretty_attrs", detail=repr(rows)[:120])
            except PyExc as ex:
                ctx.record(f"bit-rows-of-a-{nm}-are-none", False, site="pretty/unmarshal.py:pretty_attrs", detail=repr(ex.exc)[:120])
        return ("return", None)

    res = explore(run)
    u.add_paths(res, "C14/PRETTY")
    return u


# ---------------------------------------------------------------------------------------------
# proved part: stream level by step refinement (each loop of the printer: one iteration from an arbitrary state)


class Tok:
    """opaque piece of bytes (the encoding of one list element)"""

    def __init__(self, name):
        self.name = name


class AbsBuf:
    """abstract byte string: a sequence of opaque pieces; supports only concatenation"""

    def __init__(self, parts):
        self.parts = list(parts)

    def __add__(self, other):
        if isinstance(other, Tok):
            return AbsBuf(self.parts + [other])
        if isinstance(other, AbsBuf):
            return AbsBuf(self.parts + other.parts)
        return NotImplemented

    def translate(self, table):
        return AbsBuf([("printable", tuple(self.parts))])

    def decode(self):
        return self


class FakeVal:
    def __init__(self, tok):
        self.tok = tok

    def to_bytes(self):
        return self.tok


def _kinds():
    """representative next events for a list walk: (name, event-or-None, is child of the parent?)"""
    A = alphabet()
    ME, PN, root = A["MarshalEvent"], A["PathNode"], A["root"]
    return A, ME, PN, root


def unit_list_steps():
    from pyvc.explore import Ctx
    from pyvc.interp import PathEnd, Unsupported
    from pyvc.loops import OneStepLoop

    Pm = P()
    u = UnitResult("C14/STEPS/list")
    u.functions = ["tpmstream.io.pretty.unmarshal:pretty_list_elems"]
    A, ME, PN, root = _kinds()

    def ob(name, ok, detail=""):
        u.obligations.append({"name": f"C14/STEPS/{name}", "kind": "step", "site": "pretty/unmarshal.py:pretty_list_elems", "status": "proved" if ok else "refuted", "backend": "evaluation", "seconds": 0, "model": None, "detail": detail})

    def run_case(parent, loop_ord, state, nxt, seed=None):
        ctx = Ctx()
        rows = []

        def pretty_stub(I, args, kwargs):
            from pyvc.interp import IGen

            def gen():
                yield ("ROW", args[0])
            return IGen(gen(), "pretty")
            yield

        def format_stub(I, args, kwargs):
            return ("BUFROW", args[0], args[1], args[2], args[3])
            yield

        it = iter([nxt] if nxt is not None else [])
        I = Interp(ctx, stubs={Pm.pretty: pretty_stub, Pm.format: format_stub}, loop_specs={("pretty_list_elems", "while", loop_ord): OneStepLoop(state, kind="while", seed_empty_lists=seed)})
        g = run_sync(I.call(Pm.pretty_list_elems, (parent, it), {}))
        ys = []

        def deferred(loc):
            names = ctx.ghost.get("step_seeded") or []
            if len(names) > 1:
                raise Unsupported(f"more than one list accumulator in pretty_list_elems: {names}")
            return list(loc[names[0]]) if names and loc is not None else []

        try:
            while True:
                ys.append(g.g.send(None))
        except StopIteration as e:
            return ys, ("return", e.value), {"__deferred__": []}
        except PathEnd:
            loc = ctx.ghost["step"]["locals"]
            loc["__deferred__"] = deferred(loc)
            return ys, ("next-iteration",), loc
        except PyExc as e:
            return ys, ("raise", repr(e.exc)), None

    # ---- byte buffers.  Abstract state of the loop: the bytes collected so far (B) and the warnings held back so far (D,
    # empty if the code holds none back).  A warning may be shown at once or held back until the buffer's row has been
    # printed (the statement fixes neither); warnings keep their order and none is shown twice or lost.
    parent = ME(root / PN("buf"), list[A["BYTE"]], ...)
    B = AbsBuf([Tok("earlier")])
    t = Tok("this")
    child = ME(root / PN("buf", index=3), A["BYTE"], FakeVal(t))
    info = A["WarningEvent"](error=A["err"]("w"))
    info0 = A["WarningEvent"](error=A["err"]("w-earlier"))
    others = {"struct": ME(root / PN("next"), A["Command"], ...), "primitive": ME(root / PN("next"), A["UINT16"], A["UINT16"](7)),
              "list-parent": ME(root / PN("next"), list[A["TPM_CC"]], ...), "deeper-same-name": ME(root / PN("x") / PN("buf"), A["BYTE"], FakeVal(Tok("no")))}
    # which accumulator (if any) holds warnings back: found by seeding
    ys, out, loc = run_case(parent, 0, {"child_buffer": B}, None, seed=[info0])
    holds_back = ys[1:] == [("ROW", info0)]
    D = [info0] if holds_back else []
    seed = [info0] if holds_back else None
    rowsD = [("ROW", x) for x in D]
    ys, out, loc = run_case(parent, 0, {"child_buffer": B}, child, seed)
    okbuf = loc is not None and isinstance(loc.get("child_buffer"), AbsBuf) and loc["child_buffer"].parts == B.parts + [t]
    ok = out == ("next-iteration",) and okbuf and ((ys == [] and loc["__deferred__"] == D) or (ys == rowsD and loc["__deferred__"] == []))
    ob("buffer/child-is-appended-and-nothing-but-held-back-warnings-printed", ok, f"{ys} {out}")
    ys, out, loc = run_case(parent, 0, {"child_buffer": B}, info, seed)
    ok = out == ("next-iteration",) and loc.get("child_buffer") is B and ((ys == [("ROW", info)] and D == [] and loc["__deferred__"] == []) or (ys == [] and loc["__deferred__"] == D + [info]))
    ob("buffer/warning-between-elements-is-one-row-now-or-after-the-buffer-row-and-the-buffer-is-kept", ok, f"{ys} {out} held back: {loc and loc['__deferred__']}")
    ys, out, loc = run_case(parent, 0, {"child_buffer": B}, None, seed)
    okrow = len(ys) >= 1 and ys[0][0] == "BUFROW" and ys[0][1] is parent.type and ys[0][2] == parent.path and ys[0][3] is B and ys[1:] == rowsD
    ob("buffer/end-of-stream-prints-the-one-buffer-row-with-all-collected-bytes-then-the-held-back-warnings", okrow and out == ("return", None), f"{ys} {out}")
    for nm, ev in others.items():
        ys, out, loc = run_case(parent, 0, {"child_buffer": B}, ev, seed)
        okrow = len(ys) >= 1 and ys[0][0] == "BUFROW" and ys[0][2] == parent.path and ys[0][3] is B and ys[1:] == rowsD
        ob(f"buffer/next-{nm}-event-ends-the-buffer-and-is-handed-back", okrow and out[0] == "return" and out[1] is ev, f"{ys} {out}")
    # ---- other lists
    parent = ME(root / PN("lst"), list[A["TPM_CC"]], ...)
    child = ME(root / PN("lst", index=2), A["TPM_CC"], A["TPM_CC"](0x17B))
    for empty in (True, False):
        tag = "empty" if empty else "nonempty"
        ys, out, loc = run_case(parent, 1, {"is_empty": empty}, child)
        ob(f"list/{tag}/element-is-one-row", ys == [("ROW", child)] and out == ("next-iteration",) and loc.get("is_empty") is False, f"{ys} {out}")
        ys, out, loc = run_case(parent, 1, {"is_empty": empty}, info)
        ob(f"list/{tag}/warning-is-one-row", ys == [("ROW", info)] and out == ("next-iteration",) and loc.get("is_empty") is empty, f"{ys} {out}")
        ys, out, loc = run_case(parent, 1, {"is_empty": empty}, None)
        ob(f"list/{tag}/end-of-stream", ys == ([("ROW", parent)] if empty else []) and out == ("return", None), f"{ys} {out}")
        for nm, ev in others.items():
            ys, out, loc = run_case(parent, 1, {"is_empty": empty}, ev)
            ob(f"list/{tag}/next-{nm}-event-is-handed-back", ys == ([("ROW", parent)] if empty else []) and out[0] == "return" and out[1] is ev, f"{ys} {out}")
    return u


def unit_main_steps():
    from pyvc.explore import Ctx
    from pyvc.interp import PathEnd, IGen
    from pyvc.loops import OneStepLoop

    Pm = P()
    u = UnitResult("C14/STEPS/main")
    u.functions = ["tpmstream.io.pretty.unmarshal:unmarshal"]
    A, ME, PN, root = _kinds()

    def ob(name, ok, detail=""):
        u.obligations.append({"name": f"C14/STEPS/{name}", "kind": "step", "site": "pretty/unmarshal.py:unmarshal", "status": "proved" if ok else "refuted", "backend": "evaluation", "seconds": 0, "model": None, "detail": detail})

    struct = ME(root / PN("s"), A["Command"], ...)
    prim = ME(root / PN("p"), A["UINT16"], A["UINT16"](7))
    attr = ME(root / PN("a"), A["TPMA_SESSION"], A["TPMA_SESSION"](0x61))
    info = A["WarningEvent"](error=A["err"]("w"))
    lists = {"byte-buffer": ME(root / PN("b"), list[A["BYTE"]], ...), "list": ME(root / PN("l"), list[A["TPM_CC"]], ...), "attribute-list": ME(root / PN("la"), list[A["TPMA_CC"]], ...)}

    def run_case(ev, handed_back="none"):
        ctx = Ctx()
        calls = []
        src = iter([])

        def mk(name):
            def st(I, args, kwargs):
                def gen():
                    calls.append((name, args))
                    yield (name, args[0])
                    if name == "LIST":
                        return {"none": None, "struct": struct, "attr": attr}[handed_back]
                return IGen(gen(), name)
                yield
            return st

        I = Interp(ctx, stubs={Pm.pretty: mk("ROW"), Pm.pretty_attrs: mk("BITS"), Pm.pretty_list_elems: mk("LIST")}, loop_specs={("unmarshal", 0): OneStepLoop({"event": ev}, kind="for")})
        g = run_sync(I.call(Pm.unmarshal, (src,), {}))
        ys = []
        try:
            while True:
                ys.append(g.g.send(None))
        except StopIteration as e:
            return ys, "return", calls
        except PathEnd:
            return ys, "next-iteration", calls
        except PyExc as e:
            return ys, f"raise {e.exc!r}", calls

    ys, out, _ = run_case(struct)
    ob("main/structure-event-is-one-row", ys == [("ROW", struct)] and out == "next-iteration", f"{ys} {out}")
    ys, out, _ = run_case(prim)
    ob("main/primitive-event-is-one-row", ys == [("ROW", prim)] and out == "next-iteration", f"{ys} {out}")
    ys, out, _ = run_case(attr)
    ob("main/attribute-word-is-one-row-plus-its-bit-rows", ys == [("ROW", attr), ("BITS", attr)] and out == "next-iteration", f"{ys} {out}")
    ys, out, _ = run_case(info)
    ob("main/warning-is-one-row", ys == [("ROW", info)] and out == "next-iteration", f"{ys} {out}")
    # the same two rules for every type there is (a printer predicate may single out one layout shape): every structure-like
    # type as a structure event, every primitive class as a field event; attribute words are the TPMA_* types and TPM_RC
    import dataclasses
    from checks import c16
    from checks.common import layout
    from tpmstream.spec import all_types

    bad = []
    n = 0
    from tpmstream.spec.commands import command_response_types

    seen_types = set()
    for T in list(all_types) + list(command_response_types):
        if dataclasses.is_dataclass(T) and T not in seen_types:
            seen_types.add(T)
            n += 1
            ev = ME(root / PN("s"), T, ...)
            ys, out, _ = run_case(ev)
            if not (ys == [("ROW", ev)] and out == "next-iteration"):
                bad.append(f"{T.__name__}: {[y[0] for y in ys]} {out}")
    ob("main/structure-event-of-every-type-is-one-row", not bad and n > 500, f"{n} types; " + "; ".join(bad[:4]))
    bad = []
    n = 0
    PRIMS = layout()["primitives"]
    for T in c16.prim_types():
        ent = PRIMS[T.__name__]
        lo = -(1 << (8 * ent["width"] - 1)) if ent["signed"] else 0
        for v in sorted({0, 1, lo, (1 << (8 * ent["width"] - (1 if ent["signed"] else 0))) - 1}):
            try:
                val = T(v)
            except Exception:
                continue
            n += 1
            ev = ME(root / PN("p"), T, val)
            word = T.__name__.startswith("TPMA_") or T.__name__ == "TPM_RC"
            ys, out, _ = run_case(ev)
            want = [("ROW", ev), ("BITS", ev)] if word else [("ROW", ev)]
            if not (ys == want and out == "next-iteration"):
                bad.append(f"{T.__name__}({v}): {[y[0] for y in ys]} {out}")
    ob("main/field-event-of-every-primitive-class-is-one-row-plus-bit-rows-exactly-for-attribute-words", not bad and n > 200, f"{n} events; " + "; ".join(bad[:4]))
    for nm, lp in lists.items():
        ys, out, calls = run_case(lp, "none")
        ok = ys == [("LIST", lp)] and out == "return" and len(calls) == 1 and calls[0][1][0] is lp
        ob(f"main/{nm}-is-folded-and-the-stream-may-end-inside-it", ok, f"{ys} {out}")
        ok_iter = len(calls) == 1 and len(calls[0][1]) == 2
        ob(f"main/{nm}-elements-come-from-the-same-iterator", ok_iter, "")
        ys, out, calls = run_case(lp, "struct")
        ob(f"main/{nm}-then-the-event-handed-back-gets-its-row", ys == [("LIST", lp), ("ROW", struct)] and out == "next-iteration", f"{ys} {out}")
        ys, out, calls = run_case(lp, "attr")
        ob(f"main/{nm}-then-an-attribute-word-handed-back-gets-row-and-bit-rows", ys == [("LIST", lp), ("ROW", attr), ("BITS", attr)] and out == "next-iteration", f"{ys} {out}")
    return u


# ---------------------------------------------------------------------------------------------
# bounded part: streams


def alphabet():
    """representative events of every kind the printers branch on"""
    from tpmstream.common.event import MarshalEvent, WarningEvent
    from tpmstream.common.error import ConstraintViolatedError
    from tpmstream.common.path import Path, PathNode
    from tpmstream.spec.commands import Command
    from tpmstream.spec.structures.attribute_structures import TPMA_SESSION, TPMA_CC
    from tpmstream.spec.structures.base_types import BYTE, UINT16
    from tpmstream.spec.structures.constants import TPM_CC

    root = Path(PathNode(""))
    return {"root": root, "MarshalEvent": MarshalEvent, "WarningEvent": WarningEvent, "err": ConstraintViolatedError, "PathNode": PathNode, "Path": Path,
            "Command": Command, "UINT16": UINT16, "BYTE": BYTE, "TPMA_SESSION": TPMA_SESSION, "TPMA_CC": TPMA_CC, "TPM_CC": TPM_CC}


def build_stream(symbols):
    """symbols: tuple over S P A W LB b LN n LA a (elements belong to the most recent list parent) -> list of real events + descriptors"""
    A = alphabet()
    ME, PN, root = A["MarshalEvent"], A["PathNode"], A["root"]
    evs = []
    desc = []
    cur = None  # (kind, name, index)
    k = 0
    for s in symbols:
        k += 1
        if s == "S":
            e = ME(root / PN(f"s{k}"), A["Command"], ...)
            desc.append(("row", e))
        elif s == "P":
            e = ME(root / PN(f"p{k}"), A["UINT16"], A["UINT16"](0x0102 + k))
            desc.append(("row", e))
        elif s == "A":
            e = ME(root / PN(f"a{k}"), A["TPMA_SESSION"], A["TPMA_SESSION"](0x61))
            desc.append(("row+bits", e))
        elif s == "W":
            e = A["WarningEvent"](error=A["err"](f"w{k}"))
            desc.append(("info", e))
        elif s in ("LB", "LN", "LA"):
            t = {"LB": list[A["BYTE"]], "LN": list[A["TPM_CC"]], "LA": list[A["TPMA_CC"]]}[s]
            name = f"l{k}"
            e = ME(root / PN(name), t, ...)
            cur = [s, name, 0, len(desc)]
            desc.append(("buffer" if s == "LB" else "listparent", e, []))
        else:
            kind, name, idx, di = cur
            T = {"b": A["BYTE"], "n": A["TPM_CC"], "a": A["TPMA_CC"]}[s]
            v = {"b": A["BYTE"](0x10 + idx), "n": A["TPM_CC"](0x17B), "a": A["TPMA_CC"](0x0400017B)}[s]
            e = ME(root / PN(name, index=idx), T, v)
            cur[2] += 1
            desc[di][2].append(e)
            desc.append(("elem-of-buffer" if s == "b" else "row", e, di))
        evs.append(e)
    return evs, desc


def streams(maxlen):
    """all abstract streams up to maxlen that respect the shape of decoder output: a list parent is directly preceded by its
    count / size primitive (possibly with the size warning in between); its elements follow it directly (warnings may be
    interleaved); anything may follow a list"""
    out = set()
    top = ["S", "P", "A", "W"]
    lists = {"LB": "b", "LN": "n", "LA": "a"}

    def rec(seq, inlist, may_open):
        if seq:
            out.add(tuple(seq))
        if len(seq) >= maxlen:
            return
        for s in top:
            if s == "W" and inlist:
                rec(seq + [s], inlist, False)
            else:
                rec(seq + [s], None, s == "P" or (s == "W" and may_open))
        if may_open:
            for l in lists:
                rec(seq + [l], l, False)
        if inlist:
            rec(seq + [lists[inlist]], inlist, False)

    rec([], None, False)
    return sorted(out)


def spec_rows(evs, desc):
    """expected rows (from the property statement): list of ('row', event) | ('buffer', parent, bytes) | ('info', event) |
    ('bits', event) | ('optional', event); buffers stand at the position of their last element (of the parent when empty);
    an info event arriving between two elements may come before or after the buffer row (in order, each once), one after the
    last element must come after"""
    rows = []
    i = 0
    n = len(desc)
    while i < n:
        d = desc[i]
        if d[0] == "row":
            rows.append(("row", d[1]))
        elif d[0] == "row+bits":
            rows.append(("row", d[1]))
            rows.append(("bits", d[1]))
        elif d[0] == "info":
            rows.append(("info", d[1]))
        elif d[0] == "listparent":
            # a non-byte list is visible through its elements' rows; an empty one only through a row of its own
            rows.append(("optional", d[1]) if d[2] else ("required-list-row", d[1]))
        elif d[0] == "buffer":
            elems = d[2]
            # walk forward over this buffer's elements and interleaved infos
            j = i + 1
            pending_infos = []
            seen = 0
            last_elem_pos = i
            k = j
            while k < n and (desc[k][0] == "info" or (desc[k][0] == "elem-of-buffer" and desc[k][2] == i)):
                if desc[k][0] == "elem-of-buffer":
                    last_elem_pos = k
                k += 1
            mid = [desc[m][1] for m in range(i + 1, last_elem_pos + 1) if desc[m][0] == "info"]
            rows.append(("buffer", d[1], b"".join(e.value.to_bytes() for e in elems), mid))
            i = last_elem_pos
        i += 1
    return rows


def parse_row(r):
    m = INFO.match(r)
    if m:
        return ("info", m.group("text"))
    m = ROW.match(r)
    if m:
        return ("row", m.group("type"), len(m.group("indent")) // 4, m.group("name"), m.group("hex"), m.group("value") or "")
    return ("?", r)


def check_stream(symbols):
    """returns None or a description of the first deviation of the real pretty printer from the spec"""
    from tpmstream.io.pretty import Pretty
    import sys, os
    from pyvc.harness import ROOT
    sys.path.insert(0, os.path.join(ROOT, "spec"))
    from dump_layout import typeref

    evs, desc = build_stream(symbols)
    try:
        out = [parse_row(r) for r in Pretty.unmarshal(iter(evs))]
    except Exception as e:
        return f"pretty printer raised {type(e).__name__}: {e}"
    exp = spec_rows(evs, desc)
    i = 0
    pending_optional = []
    required_later = []

    def is_optional_row(g, ev):
        return g[0] == "row" and g[3] == str(ev.path[-1]) and g[1] == f"list[{ev.type.__args__[0].__name__}]" and g[4] == ""

    for e in exp:
        # a row for a non-byte list parent is optional (the statement is silent) and may stand at the parent's position or
        # after the warnings that follow it
        while pending_optional and i < len(out) and is_optional_row(out[i], pending_optional[0]):
            pending_optional.pop(0)
            i += 1
        while required_later and i < len(out) and is_optional_row(out[i], required_later[0]):
            required_later.pop(0)
            i += 1
        if e[0] in ("optional", "required-list-row"):
            ev = e[1]
            if i < len(out) and is_optional_row(out[i], ev):
                i += 1
            elif e[0] == "optional":
                pending_optional.append(ev)
            else:
                # may stand after the warnings that directly follow it
                j = i
                while j < len(out) and out[j][0] == "info":
                    j += 1
                if j < len(out) and is_optional_row(out[j], ev):
                    required_later.append(ev)
                else:
                    return f"empty list {ev.path} is not shown at all (no element rows and no row of its own)"
            continue
        if e[0] != "info":
            pending_optional.clear()
        if e[0] == "bits":
            n = len(e[1].value.attributes())
            got = out[i:i + n]
            if len(got) != n or any(g[0] != "row" or g[1] != "" or g[2] != len(e[1].path) for g in got):
                return f"attribute word {e[1].path}: expected {n} bit rows one level below it, got {got[:2]}"
            i += n
            continue
        if i >= len(out):
            return f"missing row for {e[0]} {getattr(e[1], 'path', e[1])}"
        g = out[i]
        if e[0] == "info":
            if g[0] != "info" or g[1] != str(e[1]):
                return f"expected the warning row {str(e[1])!r} at row {i}, got {g}"
        elif e[0] == "row":
            ev = e[1]
            hx = b"" if ev.value is ... else ev.value.to_bytes()
            want = ("row", typeref(ev.type) if str(ev.type).startswith("list") else ev.type.__name__, len(ev.path) - 1, str(ev.path[-1]), hx.hex(), "" if ev.value is ... else f"{ev.value}")
            if g != want:
                return f"row {i}: {g} expected {want}"
        elif e[0] == "buffer":
            ev = e[1]
            mid = list(e[3])
            while mid and i < len(out) and out[i] == ("info", str(mid[0])):
                mid.pop(0)
                i += 1
            g = out[i] if i < len(out) else ("missing",)
            if g[0] != "row" or g[3] != str(ev.path[-1]) or g[4] != e[2].hex() or g[2] != len(ev.path) - 1:
                return f"row {i}: byte buffer {ev.path} expected one row with hex {e[2].hex()!r}, got {g}"
            for w in mid:
                i += 1
                if i >= len(out) or out[i] != ("info", str(w)):
                    return f"row {i}: warning {str(w)!r} between the elements of {ev.path} is not shown exactly once around the buffer row"
        i += 1
    while (pending_optional or required_later) and i < len(out):
        if pending_optional and is_optional_row(out[i], pending_optional[0]):
            pending_optional.pop(0)
            i += 1
        elif required_later and is_optional_row(out[i], required_later[0]):
            required_later.pop(0)
            i += 1
        else:
            break
    if i != len(out):
        return f"{len(out) - i} extra row(s), first {out[i]}"
    return None


def check_stream_events(symbols):
    from tpmstream.io.events import Events

    evs, desc = build_stream(symbols)
    try:
        out = list(Events.unmarshal(iter(evs)))
    except Exception as e:
        return f"events printer raised {type(e).__name__}: {e}"
    if len(out) != len(evs):
        return f"{len(out)} lines for {len(evs)} events"
    for line, e in zip(out, evs):
        t = ANSI.sub("", line)
        if type(e).__name__ == "MarshalEvent":
            if str(e.path) not in t or (e.value is not ... and f"{e.value}" not in t):
                return f"line {t!r} does not show event {e}"
    return None


def unit_streams(maxlen, part, parts):
    u = UnitResult(f"XSTREAMS/len<={maxlen}/part{part}")
    u.functions = ["tpmstream.io.pretty.unmarshal:unmarshal", "tpmstream.io.pretty.unmarshal:pretty_list_elems", "tpmstream.io.events.unmarshal:unmarshal"]
    all_s = streams(maxlen)
    mine = all_s[part::parts]
    dis = []
    for sy in mine:
        for which, fn in (("pretty", check_stream), ("events", check_stream_events)):
            r = fn(sy)
            if r:
                dis.append({"input": {"printer": which, "event_kinds": " ".join(sy)}, "detail": r[:300], "site": which})
    # keep one representative per (printer, kind of deviation)
    seen, rep = set(), []
    for d in dis:
        key = (d["input"]["printer"], re.sub(r"[0-9]+", "N", d["detail"])[:60])
        if key not in seen:
            seen.add(key)
            rep.append(d)
    u.bounded.append({"name": f"abstract-streams/len<={maxlen}/part{part}", "bound": f"all abstract event streams of at most {maxlen} events over the kinds S P A W LB b LN n LA a (structure, primitive, attribute word, warning, byte buffer + bytes, list + elements, attribute list + elements)",
                      "evaluations": 2 * len(mine), "disagreements": rep[:12], "all_disagreements": len(dis)})
    u.obligations.append({"name": f"{u.name}/ran", "kind": "bounded-bookkeeping", "site": "", "status": "proved", "backend": "bookkeeping", "seconds": 0, "model": None, "detail": f"{len(mine)} streams"})
    return u


def replayer(obd):
    return {"reproduced": True, "detail": obd.get("detail")} if obd.get("backend") in ("evaluation", "structural") else {"reproduced": None}


def run(tier, seed, only=None):
    from checks import c17

    rep = Report("C14", tier, seed, "other", "./check C14 (pyvc: row layout by symbolic execution; stream level by exhaustive enumeration of abstract event streams up to a length bound)",
                 explanation="proof obligations for the row layout (format / pretty / format_info over symbolic bytes, opaque value text, every path depth 1..8) and the attribute bit rows (C17 units); the stream level (list folding, order, one row per event, events printer) is decided only up to a bound: all abstract event streams of <= N events over the alphabet of event kinds the printers branch on, real printers against a spec printer written from the statement")
    rep.trusted_base = ["pyvc's reading of Python", "ANSI colour codes of colorama delimit the columns (used to parse real rows)", "the alphabet of event kinds covers every predicate the printer code branches on (is MarshalEvent, is list, element type BYTE, is child of the current parent, has attributes)"]
    rep.assumptions = ["a non-empty non-byte list may or may not get a row for its parent event (it is visible through its elements); an empty one must be shown", "row order rule: a buffer's row holds all its bytes; warnings between its elements may stand before or after it (in order), warnings after its last element stand after it"]
    rep.replayer = replayer
    jobs = [(unit_format, ()), (unit_format_layout_paths, ()), (unit_pretty, ()), (unit_list_steps, ()), (unit_main_steps, ())]
    jobs += [(c17.unit_rows, (t.__name__,)) for t in c17.tpma_types()]
    n = 7 if tier == "thorough" else 5
    parts = 16
    jobs += [(unit_streams, (n, p, parts)) for p in range(parts)]
    if only:
        jobs = [j for j in jobs if only in repr(j)]
    rep.add(run_units(jobs))
    rep.min_obligations = 300
    return rep.finish()
