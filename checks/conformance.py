"""Interpreter conformance gate: the engine, in all-concrete mode (every repo function interpreted from its AST, nothing run
natively except builtins), must agree with CPython on the real decoder for concrete inputs: same events, same exception,
same error details.  A disagreement means the engine misreads Python: CHECKER-ERROR, never a violation."""
from __future__ import annotations

import os
import random
import sys

from pyvc.explore import Ctx
from pyvc.harness import ROOT, UnitResult
from pyvc.interp import Interp, PyExc, run_sync, Unsupported
from checks.common import mod


def interp_decode(tname, data, cc, enc, mode):
    sys.path.insert(0, os.path.join(ROOT, "spec"))
    import crosscheck as X

    M = mod("tpmstream.io.binary.marshal")
    T = X.resolve_type(tname)
    ctx = Ctx()
    I = Interp(ctx)
    I.force_all = True
    events, warnings, err = [], [], None
    try:
        g = run_sync(I.call(M.marshal, (), {"tpm_type": T, "buffer": data, "command_code": X.cc_member(cc), "parameter_encryption": True if enc else None, "abort_on_error": mode == "strict"}))
        while True:
            e = g.g.send(None)
            if type(e).__name__ == "MarshalEvent":
                events.append((str(e.path), X.typeref(e.type), None if e.value is ... else (None if e.value is None else int(e.value))))
            else:
                warnings.append((len(events), X.describe(e.error)))
    except StopIteration:
        pass
    except PyExc as pe:
        err = X.describe(pe.exc)
    return {"events": events, "warnings": warnings, "error": err}


def unit_conformance(types, seed, n):
    sys.path.insert(0, os.path.join(ROOT, "spec"))
    import crosscheck as X

    u = UnitResult(f"CONFORM/{types[0]}..{types[-1]}")
    rng = random.Random(seed)
    total, bad = 0, []
    for t in types:
        for label, data, cc, enc in X.candidates(t, rng, n, True):
            for mode in ("strict", "warn"):
                total += 1
                try:
                    a = interp_decode(t, data, cc, enc, mode)
                except Unsupported as e:
                    bad.append(f"{t} {data.hex()} {mode}: engine unsupported: {e}")
                    continue
                b = X.real_decode(t, data, cc, enc, mode)
                if b["error"] and "message" in b["error"]:
                    b["error"].pop("message")
                if a["error"] and "message" in a["error"]:
                    a["error"].pop("message")
                if a != b:
                    bad.append(f"{t} {data.hex()} cc={cc} enc={enc} {mode}: interpreted {str(a)[:300]} native {str(b)[:300]}")
    u.canaries.append({"name": f"interpreter agrees with CPython on {total} concrete decodes ({types[0]}..{types[-1]})", "refuted": not bad, "disagreements": bad[:3]})
    u.obligations.append({"name": f"{u.name}/ran", "kind": "bounded-bookkeeping", "site": "", "status": "proved", "backend": "bookkeeping", "seconds": 0, "model": None, "detail": f"{total} decodes"})
    u.stats = {"conformance_decodes": total}
    return u


def jobs(tier, seed):
    from checks.common import layout
    from checks import decoder_units as D

    L0 = layout()
    types = [t for t in sorted(L0["structs"]) + sorted(L0["tpm2b"]) if t != "TPM2B_ENCRYPTED_PARAM"]
    rng = random.Random(seed)
    rng.shuffle(types)
    types = types[: (len(types) if tier == "thorough" else 24)]
    js = [(unit_conformance, (ch, seed, 1)) for ch in D.chunks(types, 6)]
    for t in ("Command", "Response", "CommandResponseStream"):
        js.append((unit_conformance, ([t], seed, 6 if tier == "quick" else 40)))
    return js
