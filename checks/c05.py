"""C05 — input length mismatches are reported as depleted / superfluous, never absorbed."""
from checks import decoder_units as D
from checks.decoder_common import run_property

SEED = [0]


def jobs(tier):
    m = ("strict", "warn")
    return D.g_pump(m) + D.g_leaf(("strict",), deep=0) + [j for j in D.g_frames(("strict",)) if j[0].__name__ == "unit_stream"] + D.g_crosscheck(tier, SEED[0]) + D.g_dispatch(("strict",))


def keep(name, ob):
    return True


def run(tier, seed, only=None):
    SEED[0] = seed
    from checks.replay_decoder import replayer
    return run_property("C05", tier, seed, jobs(tier), keep,
                        "the real marshal() interpreted against an abstract processor (every send may answer Need / Emit / Done / Fail) and an abstract byte source, both loops by the invariant rule: input ending on a Need gives Depleted(command_code) after all events, Done with bytes left gives Superfluous with exactly the unread suffix, a clean end at a root event only for streams; the leaf contract places every field's event directly after its last byte",
                        only, replayer, min_obligations=2000,
                        extra_assumptions=["processor protocol (yield None = need one byte, yield event otherwise) is the contract proved for the walkers in C01"])
