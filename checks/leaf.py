"""U2 + U3 by inlining: the real process_primitive with the real SizeConstraintList.bytes_parsed /
SizeConstraint.bytes_parsed / consume_bytes underneath, for a concrete primitive class, a concrete spine of
symbolic regions and a mode.  Used by C03, C04, C06, C07, C13 (and as lemma by the walker units)."""
from __future__ import annotations

import itertools

import z3

from pyvc import sym as S
from pyvc.explore import explore, check_against_spec, drive_coroutine
from pyvc.harness import UnitResult
from pyvc.interp import Interp, IGen, PyExc, run_sync
from pyvc.loops import CountedYieldLoop, CountedLoopAny
from contracts.decoder import mk_region, mk_region_list, TypedStub, typed_int, stub_is_valid
from contracts.u05_typed import allowed_formula
from checks.common import layout, sym_equal, conj

FUNCS = ["tpmstream.io.binary.marshal:process_primitive", "tpmstream.common.constraints:SizeConstraintList.bytes_parsed",
         "tpmstream.common.constraints:SizeConstraint.bytes_parsed", "tpmstream.common.constraints:consume_bytes"]
INTERNAL = (AssertionError, TypeError, KeyError, IndexError, RuntimeError, AttributeError, NameError, UnboundLocalError, StopIteration, ZeroDivisionError, OverflowError)


def prim_types():
    from tpmstream.spec.structures import structures_types

    return [t for t in structures_types if hasattr(t, "_int_size")]


def be_int(bs, signed):
    n = len(bs)
    if n == 0:
        return z3.IntVal(0)
    total = z3.Sum([b * z3.IntVal(256 ** (n - 1 - i)) for i, b in enumerate(bs)]) if n > 1 else bs[0]
    if signed:
        total = z3.If(bs[0] >= 128, total - z3.IntVal(256**n), total)
    return total


def leaf_stubs(T):
    import tpmstream.spec.common.base_type as bt

    P = layout()["primitives"]

    def ctor(I, args, kwargs):
        (v,) = args
        return TypedStub.make(T, v)
        yield

    return {T: ctor, bt._INT.is_valid: stub_is_valid(lambda cls: P[cls.__name__])}


def leaf_loop_specs():
    import tpmstream.common.constraints as C

    from pyvc.interp import function_ast

    node, _, _ = function_ast(C.consume_bytes)
    return {("consume_bytes", 0): CountedLoopAny("consume_bytes")}


def leaf_spec(env, T, P, path, regions, mode, needs):
    """expected behaviour of process_primitive (DESIGN A.1/A.2); `needs` = byte symbols the driver handed out (in order)"""
    w = P["width"]
    exp = {"regions": [], "list": [], "trace": [], "outcome": None}
    overrun = None
    for r in regions:
        g = r._ghost
        if overrun is not None:
            # the exception left the loop: later members are untouched (a retired one stays in the list)
            exp["regions"].append((g["a0"], g["state"] == "obsolete"))
            exp["list"].append(r)
            continue
        if g["state"] == "obsolete":
            exp["regions"].append((g["a0"], True))
            continue
        if g["state"] == "armed" and env.decide(g["a0"] + w > g["max"]):
            overrun = r
            exp["regions"].append((g["a0"], True))
            exp["list"].append(r)  # the violated region is retired lazily (still in the list)
            continue
        exp["regions"].append((g["a0"] + w, False))
        exp["list"].append(r)
    if overrun is not None:
        def rec_for(r):
            g = r._ghost
            rest = z3.simplify(z3.If(g["max"] - g["a0"] >= 0, g["max"] - g["a0"], z3.IntVal(0)))  # nothing to skip if the region is already over its limit
            return {"trace": [("needs", rest)],
                    "outcome": ("raise", "SizeConstraintExceededError", {"constraint": r, "violator_path": path, "exceeded_by": z3.simplify(g["a0"] + w - g["max"]),
                                                                     "size_already": g["a0"], "size_max": g["max"]})}
        first = rec_for(overrun)
        exp["trace"], exp["outcome"] = first["trace"], first["outcome"]
        if mode == "strict":
            # the property does not say which of several regions overrun by the same field is named: any violated one will do
            alts = [first]
            seen = False
            for r in regions:
                if r is overrun:
                    seen = True
                    continue
                if seen and r._ghost["state"] == "armed" and env.decide(r._ghost["a0"] + w > r._ghost["max"]):
                    alts.append(rec_for(r))
            exp["alts"] = alts
        return exp
    bs = needs[:w]
    v = z3.simplify(be_int(bs, P["signed"]))
    exp["value"] = v
    valid = env.decide(allowed_formula(P, v))
    exp["trace"] = [("need", b) for b in bs]
    if valid:
        exp["trace"].append(("event", path, T, v))
        exp["outcome"] = ("return", w, v)
    elif mode == "strict":
        exp["outcome"] = ("raise", "ValueConstraintViolatedError", {"constraint_path": path, "tpm_type": T, "valid_values": T._valid_values, "value": v})
    else:
        exp["trace"].append(("event", path, T, v))
        exp["trace"].append(("warning", "ValueConstraintViolatedError", {"constraint_path": path, "tpm_type": T, "valid_values": T._valid_values, "value": v}))
        exp["outcome"] = ("return", w, v)
    return exp


def _safe(x):
    from checks.walkers import safe_repr

    return safe_repr(x)


def cmp_error(e, cls_name, fields):
    """dict of sub-goals comparing a real exception object with the expected record"""
    g = {}
    g["class"] = (type(e).__name__ == cls_name, f"raised {type(e).__name__}: {e!r}"[:200] + f", expected {cls_name}")
    if type(e).__name__ != cls_name:
        return g  # another kind of exception has none of the expected attributes
    if cls_name == "ValueConstraintViolatedError":
        c = getattr(e, "constraint", None)
        if "constraint_path" in fields:
            g["constraint_path"] = c is not None and c.constraint_path == fields["constraint_path"]
        g["tpm_type"] = c is not None and c.tpm_type is fields["tpm_type"]
        vv = fields["valid_values"]
        if isinstance(vv, tuple) and vv and vv[0] == "values":
            g["valid_values"] = c is not None and type(c.valid_values).__name__ == "ValidValues" and tuple(c.valid_values._values) == tuple(vv[1])
        else:
            g["valid_values"] = c is not None and c.valid_values is vv
        g["value"] = sym_equal(S.SInt(typed_int(e.value)) if not isinstance(e.value, int) else e.value, S.SInt(fields["value"]))
    elif cls_name in ("SizeConstraintExceededError", "AnticipatedSizeConstraintExceededError", "SizeConstraintSubceededError"):
        g["constraint"] = getattr(e, "constraint", None) is fields["constraint"]
        if "violator_path" in fields:
            g["violator_path"] = getattr(e, "violator_path", None) == fields["violator_path"]
        if "exceeded_by" in fields:
            g["exceeded_by"] = _eq(getattr(e, "exceeded_by", None), fields["exceeded_by"])
        if "violator_value" in fields:
            g["violator_value"] = _eq(getattr(e, "violator_value", None), fields["violator_value"])
        c = getattr(e, "constraint", None)
        if c is not None and "size_already" in fields:
            g["size_already"] = _eq(c.size_already, fields["size_already"])
            g["size_max"] = _eq(c.size_max, fields["size_max"])
    return g


def _eq(actual, term):
    if actual is None:
        return False
    try:
        return sym_equal(S.SInt(typed_int(actual)) if not isinstance(actual, int) else actual, S.SInt(term) if z3.is_expr(term) else term)
    except Exception:
        return False


def cmp_trace(actual, expected):
    """actual: engine trace; expected: spec trace.  dict of goals"""
    g = {}
    g["length"] = (len(actual) == len(expected), f"actual {summ(actual)} expected {summ(expected)}")
    for i, (a, e) in enumerate(zip(actual, expected)):
        k = f"item{i}"
        if e[0] == "need":
            g[k] = a[0] == "need" and (a[1] is e[1] or sym_equal(S.SInt(a[1]), S.SInt(e[1])))
        elif e[0] == "needs":
            g[k] = a[0] == "needs" and sym_equal(S.SInt(a[1]), S.SInt(e[1]))
        elif e[0] == "event":
            ok = a[0] == "emit" and type(a[1]).__name__ == "MarshalEvent"
            if ok:
                ev = a[1]
                _, path, T, v = e
                sub = [ev.path == path, ev.type is T, type(ev.value) is T]
                if all(sub):
                    g[k] = sym_equal(S.SInt(typed_int(ev.value)), S.SInt(v))
                else:
                    g[k] = (False, f"event {ev!r} vs expected ({path}, {T.__name__})")
            else:
                g[k] = (False, f"expected a field event, got {a!r}")
        elif e[0] == "warning":
            ok = a[0] == "emit" and type(a[1]).__name__ == "WarningEvent"
            if ok:
                for kk, vv in cmp_error(a[1].error, e[1], e[2]).items():
                    g[f"{k}/{kk}"] = vv
            else:
                g[k] = (False, f"expected a warning, got {a!r}")
    return g


def summ(tr):
    out = []
    for x in tr:
        if x[0] == "emit":
            out.append(type(x[1]).__name__)
        else:
            out.append(x[0])
    return out


def unit_leaf(tname, states, mode):
    """states: tuple of region states, outermost first"""
    from checks.common import mod
    M = mod("tpmstream.io.binary.marshal")
    from tpmstream.common.path import Path, PathNode

    T = next(t for t in prim_types() if t.__name__ == tname)
    P = layout()["primitives"][tname]
    label = f"LEAF/{tname}/{'-'.join(states) or 'noregion'}/{mode}"
    u = UnitResult(label)
    u.functions = FUNCS
    path = Path((PathNode(""), PathNode("field")))
    stubs = leaf_stubs(T)
    loops = leaf_loop_specs()

    def run(ctx):
        regions = [mk_region(ctx, f"r{i}", st, acc=False) for i, st in enumerate(states)]
        lst = mk_region_list(regions)
        I = Interp(ctx, stubs=stubs, loop_specs=loops)
        igen = run_sync(I.call(M.process_primitive, (T, path), {"size_constraints": lst, "abort_on_error": mode == "strict"}))
        outcome = drive_coroutine(ctx, igen)
        needs = [x[1] for x in ctx.trace if x[0] == "need"]
        # pad so that the spec can always name w byte symbols
        while len(needs) < P["width"]:
            needs.append(ctx.fresh_int("bx", 0, 255))

        def goals_for(trace_exp, eo):
            g = {}
            for k, v in cmp_trace(ctx.trace, trace_exp).items():
                g[f"trace/{k}"] = v
            if eo[0] == "return":
                ok = outcome[0] == "return" and isinstance(outcome[1], tuple) and len(outcome[1]) == 2
                g["outcome/returns"] = (ok, f"actual outcome {_safe(outcome)}")
                if ok:
                    g["outcome/size"] = sym_equal(outcome[1][0], eo[1])
                    g["outcome/value-class"] = type(outcome[1][1]) is T
                    if type(outcome[1][1]) is T:
                        g["outcome/value"] = sym_equal(S.SInt(typed_int(outcome[1][1])), S.SInt(eo[2]))
            else:
                ok = outcome[0] == "raise"
                g["outcome/raises"] = (ok, f"actual outcome {_safe(outcome)}")
                if ok:
                    for k, v in cmp_error(outcome[1].exc, eo[1], eo[2]).items():
                        g[f"outcome/{k}"] = v
            return g

        def goal(exp):
            if exp.get("alts") and len(exp["alts"]) > 1:
                ors = []
                for alt in exp["alts"]:
                    vals = [v[0] if isinstance(v, tuple) else v for v in goals_for(alt["trace"], alt["outcome"]).values()]
                    ors.append(conj(vals))
                if any(o is True for o in ors):
                    r = True
                else:
                    ors = [o for o in ors if o is not False]
                    r = z3.Or(ors) if ors else False
                return {"overrun/reported-for-one-of-the-violated-regions-with-consistent-details": r}
            g = goals_for(exp["trace"], exp["outcome"])
            if not (mode == "strict" and exp["outcome"][0] == "raise"):
                # (after a strict-mode raise the region state is of no consequence)
                for i, (r, (a, obs)) in enumerate(zip(regions, exp["regions"])):
                    g[f"region{i}/size_already"] = _eq(r.size_already, a)
                    g[f"region{i}/is_obsolete"] = r.is_obsolete is obs
                g["list/members"] = (len(lst) == len(exp["list"]) and all(x is y for x, y in zip(lst, exp["list"])), f"{len(lst)} vs {len(exp['list'])}")
            return g

        if outcome[0] == "raise" and isinstance(outcome[1].exc, INTERNAL):
            ctx.record("no-internal-error", False, "safety", outcome[1].site or "", detail=repr(outcome[1].exc))
        else:
            ctx.record("no-internal-error", True, "safety")
        check_against_spec(ctx, "contract", lambda env: leaf_spec(env, T, P, path, regions, mode, needs), goal, site="marshal.py:process_primitive")
        ctx.record("FRAME/no-write-to-shared-state", not ctx.frame_writes, "frame", detail="; ".join(ctx.frame_writes[:3]))
        return outcome

    res = explore(run, max_paths=2000)
    u.add_paths(res, label)
    if res:
        r = res[0]
        u.samples.append({"unit": label, "paths": len(res), "trace_of_first_path": summ(r.ctx.trace), "outcome": r.outcome})
    return u


def leaf_jobs(tier, types=None, modes=("strict", "warn"), max_regions=None):
    """work units: every primitive class with 0..k regions in all state combinations"""
    names = sorted(t.__name__ for t in prim_types()) if types is None else types
    jobs = []
    k = max_regions if max_regions is not None else (3 if tier == "thorough" else 2)
    # widths/signedness shapes: every class gets the 0- and 1-region cases; deeper nestings for one class per (width, signed)
    seen_shape = set()
    for n in names:
        P = layout()["primitives"][n]
        shape = (P["width"], P["signed"])
        deep = shape not in seen_shape
        seen_shape.add(shape)
        for mode in modes:
            depth = k if deep else 1
            for d in range(depth + 1):
                for states in itertools.product(("armed", "unarmed", "obsolete"), repeat=d):
                    jobs.append((unit_leaf, (n, states, mode)))
    return jobs


# ---------------------------------------------------------------------------------------------
# U2: set_constraint / assert_done by inlining


def unit_set_constraint(states, self_pos, mode):
    """states: states of the members of other_size_constraints; self_pos: index at which `self` itself sits in that
    list (commandSize/responseSize case) or None (TPM2B, authSize, parameterSize: self is appended afterwards)"""
    from checks.common import mod
    from tpmstream.common.path import Path, PathNode
    C = mod("tpmstream.common.constraints")

    label = f"REGION/set_constraint/{'-'.join(states) or 'empty'}/self@{self_pos}/{mode}"
    u = UnitResult(label)
    u.functions = ["tpmstream.common.constraints:SizeConstraint.set_constraint", "tpmstream.common.constraints:SizeConstraintList.bytes_parsed",
                   "tpmstream.common.constraints:SizeConstraint.bytes_parsed", "tpmstream.common.constraints:SizeConstraintList.__init__"]
    cpath = Path((PathNode(""), PathNode("size")))
    loops = leaf_loop_specs()

    def run(ctx):
        regions = [mk_region(ctx, f"r{i}", st) for i, st in enumerate(states)]
        me = mk_region(ctx, "self", "unarmed")
        members = list(regions)
        if self_pos is not None:
            members.insert(self_pos, me)
        lst = mk_region_list(members)
        s = ctx.fresh_int("size", 0)
        I = Interp(ctx, loop_specs=loops)
        igen = run_sync(I.call(C.SizeConstraint.set_constraint, (me, cpath, S.SInt(s), lst, mode == "strict"), {}))
        outcome = drive_coroutine(ctx, igen)

        def spec(env):
            exp = {"trace": [], "outcome": ("return",), "violated": None, "alts": []}
            for r in regions:
                g = r._ghost
                if g["state"] != "armed":
                    continue
                if env.decide(g["a0"] + s > g["max"]):
                    rec = {"constraint": r, "violator_path": cpath, "violator_value": s, "exceeded_by": z3.simplify(g["a0"] + s - g["max"]), "size_already": g["a0"], "size_max": g["max"]}
                    exp["alts"].append(rec)
            if exp["alts"]:
                rec = exp["alts"][0]
                exp["violated"] = rec["constraint"]
                if mode == "strict":
                    exp["outcome"] = ("raise", "AnticipatedSizeConstraintExceededError", rec)
                else:
                    exp["trace"] = [("warning", "AnticipatedSizeConstraintExceededError", rec)]
            return exp

        def goal(exp):
            g = {}
            for k, v in cmp_trace(ctx.trace, exp["trace"]).items():
                g[f"trace/{k}"] = v
            if exp["outcome"][0] == "return":
                g["outcome/returns"] = (outcome[0] == "return", f"actual {_safe(outcome)}")
            else:
                g["outcome/raises"] = (outcome[0] == "raise", f"actual {_safe(outcome)}")
                if outcome[0] == "raise":
                    if len(exp.get("alts", [])) > 1:
                        # several enclosing regions are too small for the announced size: the property does not say which is named
                        ors = []
                        for rec in exp["alts"]:
                            vals = [v[0] if isinstance(v, tuple) else v for v in cmp_error(outcome[1].exc, exp["outcome"][1], rec).values()]
                            ors.append(conj(vals))
                        if any(o is True for o in ors):
                            g["outcome/names-one-of-the-regions-that-cannot-hold-the-size"] = True
                        else:
                            ors = [o for o in ors if o is not False]
                            g["outcome/names-one-of-the-regions-that-cannot-hold-the-size"] = z3.Or(ors) if ors else False
                    else:
                        for k, v in cmp_error(outcome[1].exc, exp["outcome"][1], exp["outcome"][2]).items():
                            g[f"outcome/{k}"] = v
            g["self/armed-with-size"] = _eq(me.size_max, s) if me.size_max is not None else False
            g["self/path"] = me.constraint_path == cpath
            g["self/already-unchanged"] = _eq(me.size_already, me._ghost["a0"])
            g["self/not-retired"] = me.is_obsolete is False
            for i, r in enumerate(regions):
                g[f"other{i}/unchanged"] = conj([_eq(r.size_already, r._ghost["a0"]), r.is_obsolete is (r._ghost["state"] == "obsolete")])
            g["list/unchanged"] = len(lst) == len(members) and all(x is y for x, y in zip(lst, members))
            return g

        if outcome[0] == "raise" and isinstance(outcome[1].exc, INTERNAL):
            ctx.record("no-internal-error", False, "safety", outcome[1].site or "", detail=repr(outcome[1].exc))
        else:
            ctx.record("no-internal-error", True, "safety")
        check_against_spec(ctx, "contract", spec, goal, site="constraints.py:SizeConstraint.set_constraint")
        ctx.record("FRAME/no-write-to-shared-state", not ctx.frame_writes, "frame", detail="; ".join(ctx.frame_writes[:3]))
        return outcome

    res = explore(run, max_paths=2000)
    u.add_paths(res, label)
    return u


def unit_assert_done(mode):
    from checks.common import mod
    C = mod("tpmstream.common.constraints")

    label = f"REGION/assert_done/{mode}"
    u = UnitResult(label)
    u.functions = ["tpmstream.common.constraints:SizeConstraint.assert_done", "tpmstream.common.constraints:consume_bytes"]
    loops = leaf_loop_specs()

    def run(ctx):
        me = mk_region(ctx, "self", "armed")
        outer = mk_region(ctx, "outer", "armed")
        lst = mk_region_list([outer, me])
        I = Interp(ctx, loop_specs=loops)
        igen = run_sync(I.call(C.SizeConstraint.assert_done, (me,), {"all_size_constraints": lst, "abort_on_error": mode == "strict"}))
        outcome = drive_coroutine(ctx, igen)
        g0 = me._ghost

        def spec(env):
            exp = {"trace": [], "outcome": ("return",)}
            if env.decide(g0["a0"] == g0["max"]):
                return exp
            rec = {"constraint": me, "size_already": g0["a0"], "size_max": g0["max"]}
            if mode == "strict":
                exp["outcome"] = ("raise", "SizeConstraintSubceededError", rec)
            else:
                exp["trace"] = [("warning", "SizeConstraintSubceededError", rec), ("needs", z3.simplify(g0["max"] - g0["a0"]))]
            return exp

        def goal(exp):
            g = {}
            for k, v in cmp_trace(ctx.trace, exp["trace"]).items():
                g[f"trace/{k}"] = v
            if exp["outcome"][0] == "return":
                g["outcome/returns"] = (outcome[0] == "return", f"actual {_safe(outcome)}")
            else:
                g["outcome/raises"] = (outcome[0] == "raise", f"actual {_safe(outcome)}")
                if outcome[0] == "raise":
                    for k, v in cmp_error(outcome[1].exc, exp["outcome"][1], exp["outcome"][2]).items():
                        g[f"outcome/{k}"] = v
            g["self/retired"] = me.is_obsolete is True
            g["self/already-unchanged"] = _eq(me.size_already, g0["a0"])
            return g

        if outcome[0] == "raise" and isinstance(outcome[1].exc, INTERNAL):
            ctx.record("no-internal-error", False, "safety", outcome[1].site or "", detail=repr(outcome[1].exc))
        else:
            ctx.record("no-internal-error", True, "safety")
        check_against_spec(ctx, "contract", spec, goal, site="constraints.py:SizeConstraint.assert_done")
        ctx.record("FRAME/no-write-to-shared-state", not ctx.frame_writes, "frame", detail="; ".join(ctx.frame_writes[:3]))
        return outcome

    res = explore(run, max_paths=2000)
    u.add_paths(res, label)
    return u


def region_jobs(tier):
    jobs = []
    for mode in ("strict", "warn"):
        jobs.append((unit_assert_done, (mode,)))
        k = 3 if tier == "thorough" else 2
        for d in range(k + 1):
            for states in itertools.product(("armed", "unarmed", "obsolete"), repeat=d):
                jobs.append((unit_set_constraint, (states, None, mode)))
                for sp in range(d + 1):
                    if d <= 2:
                        jobs.append((unit_set_constraint, (states, sp, mode)))
    return jobs
