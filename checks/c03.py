"""C03 — strict mode accepts an input only if every size field is exact; earliest, fully described error."""
from checks import decoder_units as D
from checks.decoder_common import run_property

SEED = [0]
from checks.common import layout


def jobs(tier):
    m = ("strict",)
    L0 = layout()
    import checks.walkers as W
    js = D.g_region(m, tier) + D.g_leaf(m, deep=3 if tier == "thorough" else 2, types=["UINT8", "UINT16", "UINT32", "UINT64", "INT8", "INT16", "INT32", "INT64", "TPM_ST", "TPM_CC"])
    js += [(W.unit_tpm2b, (n, "strict")) for n in sorted(L0["tpm2b"])]
    js += [(W.unit_array, (e, "strict", True)) for e in ("TPMS_AUTH_COMMAND", "TPMS_AUTH_RESPONSE")]
    js += [j for j in D.g_frames(m)]
    return js + D.g_crosscheck(tier, SEED[0], only_frames=True) + D.g_dispatch(("strict",))


def keep(name, ob):
    return "ENCFLAG/" not in name  # (flag/session mismatch is outside this property's inputs; C06/C08 own it)


def run(tier, seed, only=None):
    SEED[0] = seed
    from checks.replay_decoder import replayer
    return run_property("C03", tier, seed, jobs(tier), keep,
                        "region contracts (set_constraint / bytes_parsed / assert_done / consume_bytes) proved by inlining the real code over symbolic counters and every state combination of up to 2 (thorough: 3) enclosing regions; region owners (TPM2B, byte-sized list, command, response) arm the right region from the right byte, keep it live exactly over the governed bytes and close it right after; error records carry path, limit, count, violator and excess as symbolic terms equal to the spec's",
                        only, replayer, min_obligations=3000)
