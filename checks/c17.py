"""C17 — attribute words decompose into fields that partition their bits.

MASKS[T]: finite, evaluated on the real classes.  GET[T,field] and ROWS[T]: the real Bit.__get__ /
tpm_bitfield.__init__ / attributes / pretty_attrs are interpreted over a symbolic word v."""
from __future__ import annotations

import z3

from pyvc import sym as S
from pyvc.explore import explore
from pyvc.harness import Report, UnitResult, run_units
from pyvc.interp import Interp, run_sync, PyExc
from checks.common import layout, sym_equal, concretize

FUNCS = ["tpmstream.spec.common.values:tpm_bitfield.<locals>.decorator.<locals>.Bit.__get__",
         "tpmstream.spec.common.values:tpm_bitfield.<locals>.decorator.<locals>.__init__",
         "tpmstream.spec.common.values:tpm_bitfield.<locals>.decorator.<locals>.attributes",
         "tpmstream.io.pretty.unmarshal:pretty_attrs", "tpmstream.io.pretty.unmarshal:format"]


def tpma_types():
    from tpmstream.spec.structures import structures_types

    return [t for t in structures_types if hasattr(t, "attributes") and hasattr(t, "_int_size") and t.__name__ != "TPM_RC"]


def real_masks(T):
    """[(name, mask)] read from the real class (class-level access of the Bit descriptors)"""
    out = []
    for a in T(0).attributes():
        out.append((a._name, int(a._value)))
    return out


def unit_masks(tname):
    T = next(t for t in tpma_types() if t.__name__ == tname)
    u = UnitResult(f"C17/MASKS/{tname}")
    u.functions = [f"{T.__module__}:{T.__name__}"]
    full = (1 << (8 * T._int_size)) - 1
    ms = real_masks(T)
    def ob(name, ok, detail=""):
        u.obligations.append({"name": f"C17/MASKS/{tname}/{name}", "kind": "table", "site": f"{T.__module__}:{T.__name__}", "status": "proved" if ok else "refuted",
                              "backend": "evaluation", "seconds": 0, "model": None, "detail": detail})
    ob("nonempty", len(ms) > 0)
    for i, (n1, m1) in enumerate(ms):
        ob(f"{n1}/nonzero-and-in-word", 0 < m1 <= full, hex(m1))
        for n2, m2 in ms[:i]:
            ob(f"{n1}/disjoint-from/{n2}", m1 & m2 == 0, f"{hex(m1)} & {hex(m2)}")
    union = 0
    for _, m in ms:
        union |= m
    ob("cover-every-bit", union == full, f"union {hex(union)} of {hex(full)}; uncovered {hex(full & ~union)}")
    pinned = layout()["primitives"].get(tname, {}).get("bitfields")
    ob("equal-pinned-masks", pinned is not None and sorted(map(tuple, pinned)) == sorted(ms), f"pinned {pinned} now {ms}")
    u.samples.append({"type": tname, "masks": [(n, hex(m)) for n, m in ms]})
    return u


def _mk(ctx, T):
    v = ctx.fresh_int("v", 0, (1 << (8 * T._int_size)) - 1)
    I = Interp(ctx)
    obj = run_sync(I.call(T, (S.SInt(v),), {}))
    return I, v, obj


def unit_get(tname):
    T = next(t for t in tpma_types() if t.__name__ == tname)
    u = UnitResult(f"C17/GET/{tname}")
    u.functions = FUNCS[:2]
    for name, mask in real_masks(T):
        lo = (mask & -mask).bit_length() - 1

        def run(ctx, name=name, mask=mask, lo=lo):
            I, v, obj = _mk(ctx, T)
            try:
                r = I.getattr_(obj, name)
            except PyExc as e:
                ctx.record("no-internal-error", False, "safety", e.site or "", repr(e.exc))
                return ("raise", e)
            exp = S.and_mask(v, mask) / z3.IntVal(1 << lo)
            if isinstance(r, (S.SInt, int)) and not isinstance(r, bool):
                ctx.oblige("accessor-returns-field-bits-right-aligned", S.term(r) == exp, site="values.py:Bit.__get__", detail=f"mask {hex(mask)}")
            else:
                ctx.record("accessor-returns-field-bits-right-aligned", False, site="values.py:Bit.__get__", detail=f"returned {r!r}")
            ctx.record("FRAME/no-write-to-shared-state", not ctx.frame_writes, "frame", detail="; ".join(ctx.frame_writes[:3]))
            return ("return", r)

        res = explore(run)
        u.add_paths(res, f"C17/GET/{tname}/{name}")
    return u


def expected_bits(v, mask, width):
    chars = []
    for i in range(width):
        k = width - 1 - i
        chars.append(S.BitChar(v, k) if (mask >> k) & 1 else ".")
    return S.SStr(chars)


def unit_rows(tname):
    from tpmstream.common.event import MarshalEvent
    from tpmstream.common.path import Path, PathNode
    import importlib; P = importlib.import_module("tpmstream.io.pretty.unmarshal")

    T = next(t for t in tpma_types() if t.__name__ == tname)
    u = UnitResult(f"C17/ROWS/{tname}")
    u.functions = FUNCS[2:]
    width = 8 * T._int_size
    masks = sorted(real_masks(T), key=lambda nm: nm[1])
    path = Path((PathNode(""), PathNode("attrs")))

    def run(ctx):
        I, v, obj = _mk(ctx, T)
        ev = MarshalEvent(path, T, obj)
        try:
            g = run_sync(I.call(P.pretty_attrs, (ev,), {}))
            rows = run_sync(I.iterate_all(g))
        except PyExc as e:
            ctx.record("no-internal-error", False, "safety", e.site or "", repr(e.exc))
            return ("raise", e)
        ctx.record("one-row-per-field", len(rows) == len(masks), detail=f"{len(rows)} rows for {len(masks)} fields")
        for (name, mask), row in zip(masks, rows):
            exp_row = run_sync(I.call(P.format, (None, path + PathNode(name), None, expected_bits(v, mask, width)), {}))
            g = sym_equal(row, exp_row)
            if isinstance(g, bool):
                ctx.record(f"row/{name}/bits-at-their-positions-dots-elsewhere", g, site="pretty/unmarshal.py:pretty_attrs", detail=f"row {row!r}")
            else:
                ctx.oblige(f"row/{name}/bits-at-their-positions-dots-elsewhere", g, site="pretty/unmarshal.py:pretty_attrs")
        ctx.record("FRAME/no-write-to-shared-state", not ctx.frame_writes, "frame", detail="; ".join(ctx.frame_writes[:3]))
        return ("return", rows)

    res = explore(run)
    u.add_paths(res, f"C17/ROWS/{tname}")
    if res and res[0].outcome == "return":
        u.samples.append({"type": tname, "first_row": repr(res[0].value[0])[:300] if res[0].value else None})
    return u


def unit_bounded(tname):
    """bounded stand-in (never counted as proved): concrete words through the real accessors and the real bit-row printer -
    zero, all ones, every single bit, every field holding 1, 2, its maximum and max-1, plus 64 pseudo-random words; it decides
    when the symbolic units cannot (bit tricks, float arithmetic, string padding by computed widths)"""
    import random
    import re
    import importlib
    from tpmstream.common.event import MarshalEvent
    from tpmstream.common.path import Path, PathNode

    P = importlib.import_module("tpmstream.io.pretty.unmarshal")
    ANSI = re.compile(r"\x1b\[[0-9;]*m")
    T = next(t for t in tpma_types() if t.__name__ == tname)
    u = UnitResult(f"XC17/{tname}")
    u.functions = FUNCS
    width = 8 * T._int_size
    pinned = layout()["primitives"][tname]["bitfields"]
    masks = sorted(((b[0], b[1]) for b in pinned), key=lambda nm: nm[1])
    words = {0, (1 << width) - 1} | {1 << k for k in range(width)}
    for _, m in masks:
        sh = (m & -m).bit_length() - 1
        top = m >> sh
        for fv in (1, 2, top, top - 1):
            if 0 <= fv <= top:
                words.add(fv << sh)
                words.add(((1 << width) - 1) & ~m | (fv << sh))
    rng = random.Random(17)
    words |= {rng.getrandbits(width) for _ in range(64)}
    path = Path((PathNode(""), PathNode("attrs")))
    dis = []
    n = 0
    for v in sorted(words):
        n += 1
        try:
            obj = T(v)
            for name, m in masks:
                sh = (m & -m).bit_length() - 1
                got = getattr(obj, name)
                if int(got) != (v & m) >> sh:
                    dis.append({"input": {"type": tname, "word": hex(v), "field": name}, "detail": f"{tname}({v:#x}).{name} returned {int(got):#x}, the field's right-aligned bits are {(v & m) >> sh:#x}", "site": "values.py:Bit.__get__"})
            rows = [ANSI.sub("", r) for r in P.pretty_attrs(MarshalEvent(path, T, obj))]
            want = []
            for name, m in masks:
                bits = "".join((str((v >> k) & 1) if (m >> k) & 1 else ".") for k in range(width - 1, -1, -1))
                want.append(ANSI.sub("", P.format(None, path + PathNode(name), None, bits)))
            if rows != want:
                k = next((i for i, (a, b) in enumerate(zip(rows, want)) if a != b), min(len(rows), len(want)))
                dis.append({"input": {"type": tname, "word": hex(v)}, "detail": f"bit rows of {tname}({v:#x}): {len(rows)} rows, expected {len(want)}; first difference at row {k}: {rows[k] if k < len(rows) else None!r} expected {want[k] if k < len(want) else None!r}", "site": "pretty/unmarshal.py:pretty_attrs"})
        except Exception as e:  # noqa
            dis.append({"input": {"type": tname, "word": hex(v)}, "detail": f"{type(e).__name__}: {e}", "site": "attribute word"})
    u.bounded.append({"name": f"attribute-words/{tname}", "bound": f"{n} words (0, all ones, single bits, per-field boundary values, 64 pseudo-random)", "evaluations": n, "disagreements": dis[:8], "all_disagreements": len(dis)})
    u.obligations.append({"name": f"{u.name}/ran", "kind": "bounded-bookkeeping", "site": "", "status": "proved", "backend": "bookkeeping", "seconds": 0, "model": None, "detail": f"{n} words"})
    return u


def unit_canary():
    """a wrong accessor spec (no right-alignment) must be refuted for a mask that does not start at bit 0"""
    from tpmstream.spec.structures.attribute_structures import TPMA_SESSION

    u = UnitResult("C17/canary")

    def run(ctx):
        I, v, obj = _mk(ctx, TPMA_SESSION)
        r = I.getattr_(obj, "decrypt")
        ctx.oblige("canary", S.term(r) == S.and_mask(v, 0x20))
        return ("return", r)

    res = explore(run)
    u.canaries.append({"name": "C17 accessor without right-alignment", "refuted": any(o.status == "refuted" for r in res for o in r.ctx.obligations)})
    return u


def replayer(obd):
    name = obd["name"]
    parts = name.split("/")
    tname = parts[2]
    T = next((t for t in tpma_types() if t.__name__ == tname), None)
    if T is None:
        return {"reproduced": None}
    if parts[1] == "MASKS":
        return {"reproduced": True, "input": {"type": tname}, "detail": obd.get("detail"), "actual": [(n, hex(m)) for n, m in real_masks(T)]}
    m = obd.get("model") or {}
    vs = [v for k, v in m.items() if k.startswith("v!")]
    if not vs:
        return {"reproduced": None}
    v = vs[0]
    width = 8 * T._int_size
    if parts[1] == "GET":
        field = parts[3]
        mask = dict(real_masks(T))[field]
        exp = (v & mask) >> ((mask & -mask).bit_length() - 1)
        try:
            act = getattr(T(v), field)
        except Exception as e:
            act = f"raises {e!r}"
        return {"reproduced": act != exp, "input": {"type": tname, "value": hex(v), "field": field}, "expected": exp, "actual": act}
    if parts[1] == "ROWS":
        from tpmstream.common.event import MarshalEvent
        from tpmstream.common.path import Path, PathNode
        import importlib; P = importlib.import_module("tpmstream.io.pretty.unmarshal")
        path = Path((PathNode(""), PathNode("attrs")))
        try:
            rows = list(P.pretty_attrs(MarshalEvent(path, T, T(v))))
        except Exception as e:
            return {"reproduced": True, "input": {"type": tname, "value": hex(v)}, "actual": f"raises {e!r}"}
        masks = sorted(real_masks(T), key=lambda nm: nm[1])
        exp = []
        for n, mk in masks:
            bits = "".join(str((v >> k) & 1) if (mk >> k) & 1 else "." for k in range(width - 1, -1, -1))
            exp.append(P.format(None, path + PathNode(n), None, bits))
        return {"reproduced": rows != exp, "input": {"type": tname, "value": hex(v)}, "expected": exp[:3], "actual": rows[:3]}
    return {"reproduced": None}


def run(tier, seed, only=None):
    from pyvc import frame
    frame.registry()
    rep = Report("C17", tier, seed, "proof", "./check C17 (pyvc: mask tables evaluated exhaustively; Bit.__get__ and pretty_attrs interpreted over a symbolic word; z3/cvc5)",
                 explanation="masks: finite invariant on the real classes; accessors and bit rows: every path of the real code over a symbolic word equals the spec")
    rep.trusted_base = ["pyvc's reading of Python (DESIGN §2.8)", "z3/cvc5", "x & mask as sum over mask runs", "f'{v:b}'.zfill(n) modelled as an n-character bit string for 0 <= v < 2^n",
                        "row layout function `format` is used on both sides here (its own contract is part of C14)"]
    rep.assumptions = ["precondition 0 <= v < 2^(8*width) (established by the decoder's leaf contract, U3)"]
    rep.replayer = replayer
    jobs = []
    for t in tpma_types():
        jobs += [(unit_masks, (t.__name__,)), (unit_get, (t.__name__,)), (unit_rows, (t.__name__,)), (unit_bounded, (t.__name__,))]
    jobs.append((unit_canary, ()))
    if only:
        jobs = [j for j in jobs if only in repr(j)]
    rep.add(run_units(jobs))
    rep.min_obligations = 100
    return rep.finish()
