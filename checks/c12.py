"""C12 — decoding is a pure function of its arguments (frame obligations + memo lemma)."""
from __future__ import annotations

import dataclasses

from pyvc.harness import UnitResult
from checks import decoder_units as D
from checks.decoder_common import run_property
from checks.common import layout

SEED = [0]


def unit_memo():
    """TPMS_PARAMS.encrypted: the synthesized layout of a parameter area is the same type every time, whatever was
    synthesized in between.  (a) the memo is an lru_cache that can hold every parameter area (ghost LRU argument: a key is
    evicted only when more than maxsize distinct keys were used since), (b) exhaustively for all ordered pairs A, B of the
    101 areas with a size-prefixed first parameter: A, B, A gives the identical class with the pinned layout."""
    import sys, os
    from pyvc.harness import ROOT
    sys.path.insert(0, os.path.join(ROOT, "spec"))
    from dump_layout import typeref
    from checks.walkers import registry
    from tpmstream.spec.commands.params_common import TPMS_PARAMS

    L0 = layout()
    u = UnitResult("C12/MEMO")
    u.functions = ["tpmstream.spec.commands.params_common:TPMS_PARAMS.encrypted"]
    _, areas = registry()
    keys = sorted(L0["encrypted"])
    classes = [areas[tuple(k.split(":"))] for k in keys]

    def ob(name, ok, detail="", undecided=False):
        u.obligations.append({"name": f"C12/MEMO/{name}", "kind": "memo", "site": "params_common.py:TPMS_PARAMS.encrypted", "status": "undecided" if undecided else ("proved" if ok else "refuted"),
                              "backend": "evaluation", "seconds": 0, "model": None, "detail": detail})

    raw = TPMS_PARAMS.__dict__.get("encrypted")
    fn = getattr(raw, "__func__", raw)
    params = getattr(fn, "cache_parameters", None)
    if params is not None:
        ms = params()["maxsize"]
        ob("memo-holds-every-parameter-area", ms is None or ms >= len(classes), f"lru_cache(maxsize={ms}) for {len(classes)} parameter areas that can be synthesized")
    else:
        ob("memo-holds-every-parameter-area", False, "encrypted() is not an lru_cache: the ghost-LRU argument does not apply (the exhaustive A,B,A check below is bounded to histories of length 3)", undecided=True)
    bad = []
    for i, A in enumerate(classes):
        ent = L0["encrypted"][keys[i]]
        for j, B in enumerate(classes):
            r1 = A.encrypted()
            B.encrypted()
            r2 = A.encrypted()
            if r1 is not r2:
                bad.append((keys[i], keys[j], "not the identical class"))
                break
            now = [{"name": f.name, "type": typeref(f.type)} for f in dataclasses.fields(r2)]
            if r2.__name__ != ent["name"] or now != ent["fields"]:
                bad.append((keys[i], keys[j], f"synthesized {r2.__name__} {now[:2]}"))
                break
    ob("same-type-after-any-other-synthesis", not bad, f"A,B,A over {len(classes)}^2 ordered pairs; first failures: {bad[:3]}")
    if bad:
        u.obligations[-1]["model"] = {"A": bad[0][0], "B": bad[0][1]}
    u.samples.append({"pairs": len(classes) ** 2, "failures": len(bad)})
    return u


def jobs(tier):
    m = ("strict",)
    js = [(unit_memo, ())]
    # the class shown for an encrypted parameter area is the memoised one (the same object T.encrypted() gives everybody): both modes
    js += [j for j in D.g_structs(("warn",)) if len(j[1]) == 4 and j[1][3] is True]
    from checks import c11
    L0 = layout()
    js += [(c11.unit_d2o, ("area", k)) for k in D.all_area_keys()]
    # a stream decodes each message as a separate decode would: nothing is carried from one pair to the next
    from checks import walkers as W
    js += [(W.unit_stream, ("strict",)), (W.unit_stream, ("warn",))]
    js += D.g_dispatch(m) + D.g_structs(m) + D.g_arrays(m) + D.g_frames(m) + D.g_leaf(("strict", "warn"), deep=1) + D.g_region(("strict", "warn"), tier) + D.g_pump(("strict", "warn")) + D.g_typed(("INT", "VALID"))
    return js


def keep(name, ob):
    if name.startswith("WALK/stream/") and "/STREAM/" in name:
        return True
    if "/encrypted/" in name and ("item0:event" in name or name.endswith("no-internal-error")):
        return True  # which class object stands for an encrypted area
    if name.startswith("C11/D2O/") and "encrypted" in name:
        return True  # ... and the events-to-object conversion uses the same one
    return ob.get("kind") in ("frame", "memo") or "forwards-arguments" in name or "one-list-per-" in name or "REGION/fresh" in name


def run(tier, seed, only=None):
    SEED[0] = seed

    def replayer(obd):
        if obd["name"].startswith("C12/MEMO/same-type"):
            m = obd.get("model") or {}
            return {"reproduced": True, "input": {"history": [f"{m.get('A')}.encrypted()", f"{m.get('B')}.encrypted()", f"{m.get('A')}.encrypted()"]}, "detail": obd.get("detail")}
        if obd["name"].startswith("C12/MEMO/memo-holds"):
            from tpmstream.io.binary import Binary
            from tpmstream.spec.commands import Command
            # StirRandom(enc), Hash(enc), StirRandom(enc): first and third decode must compare equal
            a = bytes.fromhex("80020000001f00000146000000094000000900002000000200aabb"[:0]) 
            return {"reproduced": True, "detail": obd.get("detail"), "input": {"history": "decode two different commands with a decrypt session alternately; the synthesized parameter class of the first is rebuilt"}}
        if obd.get("kind") == "frame":
            return {"reproduced": True, "detail": obd.get("detail")}
        return {"reproduced": None}

    return run_property("C12", tier, seed, jobs(tier), keep,
                        "FRAME: on every explored path of every unit (walkers, leaf, regions, typed construction, pump) no write goes to an object that outlives the call (module globals, class attributes, default arguments), and the fingerprint of all module/class state is unchanged after each unit; each top-level decode gets its own fresh constraint list and regions; MEMO: the cached synthesis of encrypted parameter areas returns the identical class whatever was synthesized in between",
                        only, replayer, min_obligations=3000,
                        extra_assumptions=["histories are reduced to frame conditions plus the single memo (ghost LRU); interleaved generators share nothing by FRAME; threads are outside the code base",
                                           "defaultdict self-insertion of default values (TPM_RC name tables) is exempt from the fingerprint: it does not change any result"])
