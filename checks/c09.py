"""C09 — a command/response stream decodes as its messages decoded one by one."""
from __future__ import annotations

from pyvc.explore import explore, Ctx
from pyvc.harness import UnitResult
from pyvc.interp import Interp, IGen, PyExc, PathEnd, run_sync
from pyvc.loops import OneStepLoop
from checks import decoder_units as D
from checks.decoder_common import run_property
from checks.common import mod

SEED = [0]


def _events():
    from tpmstream.common.event import MarshalEvent, WarningEvent
    from tpmstream.common.error import ConstraintViolatedError
    from tpmstream.common.path import Path, PathNode
    from tpmstream.spec.commands import Command
    from tpmstream.spec.structures.base_types import UINT8

    root = Path(PathNode(""))
    return {"root": MarshalEvent(root, Command, ...), "field": MarshalEvent(root / PathNode("tag"), UINT8, UINT8(1)), "warning": WarningEvent(error=ConstraintViolatedError("w")),
            "root-prim": MarshalEvent(root, UINT8, UINT8(2))}


def unit_separate():
    """separate_events: one step of the loop from every abstract state (current group empty / non-empty) x every event kind
    equals 'cut before every root-path MarshalEvent that is not the first event'; the tail group is flushed at the end"""
    O = mod("tpmstream.common.object")
    u = UnitResult("C09/SEPARATE")
    u.functions = ["tpmstream.common.object:separate_events"]
    EV = _events()

    def ob(name, ok, detail=""):
        u.obligations.append({"name": f"C09/SEPARATE/{name}", "kind": "step", "site": "object.py:separate_events", "status": "proved" if ok else "refuted", "backend": "evaluation", "seconds": 0, "model": None, "detail": detail})

    E0 = EV["field"]
    for gname, group in (("empty", []), ("nonempty", [EV["root"], E0])):
        for ename, ev in EV.items():
            ctx = Ctx()
            cur = list(group)
            I = Interp(ctx, loop_specs={("separate_events", 0): OneStepLoop({"events_single_command_or_response": cur, "event": ev}, kind="for")})
            g = run_sync(I.call(O.separate_events, ([],), {}))
            ys = []
            try:
                while True:
                    ys.append(g.g.send(None))
            except PathEnd:
                pass
            except (StopIteration, PyExc) as e:
                ob(f"step/{gname}/{ename}", False, f"ended with {e!r}")
                continue
            after = ctx.ghost["step"]["locals"]["events_single_command_or_response"]
            cut = ename.startswith("root") and group
            exp_y = [group] if cut else []
            exp_after = ([] if cut else list(group)) + [ev]
            ok = len(ys) == len(exp_y) and all(len(a) == len(b) and all(x is y for x, y in zip(a, b)) for a, b in zip(ys, exp_y)) and len(after) == len(exp_after) and all(x is y for x, y in zip(after, exp_after))
            ob(f"step/{gname}/{ename}", ok, f"yielded {len(ys)} group(s), group afterwards has {len(after)} event(s); expected {len(exp_y)} / {len(exp_after)}")
    # whole runs on small concrete streams (flush of the tail, order)
    r, f, w = EV["root"], EV["field"], EV["warning"]
    for name, stream, exp in (("empty", [], []), ("one", [r, f], [[r, f]]), ("two", [r, f, w, r, f, f], [[r, f, w], [r, f, f]]), ("warning-first", [w, r, f], [[w], [r, f]])):
        out = list(O.separate_events(iter(stream)))
        ok = len(out) == len(exp) and all(len(a) == len(b) and all(x is y for x, y in zip(a, b)) for a, b in zip(out, exp))
        ob(f"run/{name}", ok, f"{[len(g) for g in out]} expected {[len(g) for g in exp]}")
    return u


def unit_pairing():
    """events_to_objs: objects alternate command / response; each response is built with the preceding command's code"""
    O = mod("tpmstream.common.object")
    u = UnitResult("C09/PAIRING")
    u.functions = ["tpmstream.common.object:events_to_objs"]

    def ob(name, ok, detail=""):
        u.obligations.append({"name": f"C09/PAIRING/{name}", "kind": "step", "site": "object.py:events_to_objs", "status": "proved" if ok else "refuted", "backend": "evaluation", "seconds": 0, "model": None, "detail": detail})

    class Obj:
        def __init__(self, cc):
            self.commandCode = cc

    # messages with pairwise distinct events, and messages whose events are all the same object (equal event lists:
    # a result remembered per event list would hand an earlier message's object / command code to a later one; round 13)
    for nmsgs, same in [(n, s) for n in range(0, 6) for s in (False, True) if not (s and n < 2)]:
        ctx = Ctx()
        shared = object()
        groups = [[shared if same else object()] for _ in range(nmsgs)]
        calls = []
        codes = [object() for _ in range(nmsgs)]
        objs = []

        def sep_stub(I, args, kwargs):
            return iter(groups)
            yield

        def e2o_stub(I, args, kwargs):
            k = len(calls)
            calls.append((args, dict(kwargs)))
            o = Obj(codes[k])
            objs.append(o)
            return o
            yield

        I = Interp(ctx, stubs={O.separate_events: sep_stub, O.events_to_obj: e2o_stub})
        g = run_sync(I.call(O.events_to_objs, (object(),), {}))
        try:
            out = run_sync(I.iterate_all(g))
        except PyExc as e:
            ob(f"messages-{nmsgs}{'-equal-event-lists' if same else ''}", False, f"raised {e.exc!r}")
            continue
        ok = len(out) == nmsgs and len(calls) == nmsgs and all(a is b for a, b in zip(out, objs))
        for k, (a, kw) in enumerate(calls):
            ev = a[0] if a else kw.get("events")
            ok = ok and ev is groups[k]
            cc = a[1] if len(a) > 1 else kw.get("command_code")
            if k % 2 == 0:
                ok = ok and cc is None
            else:
                ok = ok and cc is codes[k - 1]
        ob(f"messages-{nmsgs}{'-equal-event-lists' if same else ''}", ok, f"{len(out)} objects for {nmsgs} messages; command codes handed on: {[('prev' if (c[0][1] if len(c[0]) > 1 else c[1].get('command_code')) is not None else None) for c in calls]}")
    return u


def unit_stream_xcheck(seed, n):
    """bounded: stream decode == concatenation of per-message decodes (with the command's code and encryption request)"""
    import os, random, sys
    from pyvc.harness import ROOT
    sys.path.insert(0, os.path.join(ROOT, "spec"))
    import crosscheck as X
    import witness
    from tpmstream.io.binary import Binary
    from tpmstream.spec.commands import Command, CommandResponseStream, Response
    from tpmstream.common.object import events_to_objs

    u = UnitResult(f"XSTREAM/{seed}")
    rng = random.Random(seed)
    L = X.layout()
    total, dis = 0, []
    ccs = sorted(L["commands"])
    for _ in range(n):
        g = witness.Gen(L, rng)
        msgs = []
        for _ in range(rng.randrange(1, 4)):
            c = rng.choice(ccs)
            sess = rng.choice([0, 1, 2])
            e = sess > 0 and rng.random() < 0.4 and f"rsp_params:{c}" in L["encrypted"]
            rc = rng.choice([0, 0, 0x101])
            msgs.append(("cmd", g.command(c, sess, encrypt=e), None, False))
            msgs.append(("rsp", g.response(c, sess, encrypt=e, rc=rc), L["commands"][c]["cc"], bool(e) and rc == 0 and sess > 0))
        data = b"".join(m[1] for m in msgs)
        total += 1
        try:
            sev = list(Binary.marshal(tpm_type=CommandResponseStream, buffer=data, abort_on_error=True))
            single = []
            for kind, d, cc, enc in msgs:
                single += list(Binary.marshal(tpm_type=Command if kind == "cmd" else Response, buffer=d, command_code=X.cc_member(cc), parameter_encryption=True if enc else None, abort_on_error=True))
            a = [(str(e.path), e.type.__name__ if hasattr(e.type, "__name__") else str(e.type), None if e.value is ... else int(e.value)) for e in sev]
            b = [(str(e.path), e.type.__name__ if hasattr(e.type, "__name__") else str(e.type), None if e.value is ... else int(e.value)) for e in single]
            if a != b:
                dis.append({"input": {"hex": data.hex()}, "detail": "stream events differ from per-message events", "site": "stream"})
            objs = list(events_to_objs(sev))
            if len(objs) != len(msgs) or any((type(o).__name__ == "Command") != (m[0] == "cmd") for o, m in zip(objs, msgs)):
                dis.append({"input": {"hex": data.hex()}, "detail": f"{len(objs)} objects for {len(msgs)} messages", "site": "events_to_objs"})
            for o, m in zip(objs, msgs):
                if m[0] == "rsp" and int(getattr(o, "_command_code", -1)) != m[2]:
                    dis.append({"input": {"hex": data.hex()}, "detail": "response object paired with the wrong command code", "site": "events_to_objs"})
        except Exception as ex:
            dis.append({"input": {"hex": data.hex()}, "detail": f"raised {ex!r}"[:200], "site": "stream"})
    u.bounded.append({"name": f"stream-vs-messages/{seed}", "bound": f"{n} generated streams of 1..3 command/response pairs, seed {seed}", "evaluations": total, "disagreements": dis[:5]})
    u.obligations.append({"name": f"{u.name}/ran", "kind": "bounded-bookkeeping", "site": "", "status": "proved", "backend": "bookkeeping", "seconds": 0, "model": None, "detail": f"{total} streams"})
    return u


def jobs(tier):
    m = ("strict",)
    js = [(unit_separate, ()), (unit_pairing, ())]
    js += [j for j in D.g_frames(m)] + D.g_pump(("strict", "warn")) + D.g_dispatch(m)[-2:] + D.g_dispatch(m)[:1]
    n = 200 if tier == "thorough" else 25
    js += [(unit_stream_xcheck, (SEED[0] * 7 + k, n)) for k in range(4)]
    return js


def keep(name, ob):
    return "ENCFLAG/" not in name


def run(tier, seed, only=None):
    SEED[0] = seed
    from checks.replay_decoder import replayer as rd

    def replayer(obd):
        if obd.get("kind") == "step":
            return {"reproduced": True, "detail": obd.get("detail")}
        return rd(obd)

    return run_property("C09", tier, seed, jobs(tier), keep,
                        "stream loop by the invariant rule (each iteration: Command, then Response with that command's commandCode and encrypted first parameter iff one of its sessions requests it, fresh regions per message); message boundaries from commandSize/responseSize (region contracts of command/response); the pump ends a stream cleanly only at a root event with the input exhausted; separate_events and events_to_objs by step refinement against 'cut before every non-first root event; objects alternate, response built with the preceding command's code'",
                        only, replayer, min_obligations=2000)
