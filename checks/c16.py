"""C16 — protocol integers carry their value, width, validity and name faithfully.

For each of the primitive classes the real construction machinery (_INT.__init__, ValidValues.get,
NamedRange, tpm_enum __init__/by_value/class_contains, AlgValue, numeric dunders) is interpreted with a
symbolic integer v in the type's width; every path must meet INT, VALID, BYTES, NAME, HASH and OPS."""
from __future__ import annotations

import operator
import random

import z3

from pyvc import sym as S
from pyvc.explore import explore, check_against_spec, ConcreteEnv
from pyvc.harness import Report, UnitResult, run_units
from pyvc.interp import Interp, run_sync, PyExc, Unsupported
from pyvc import models as M
from contracts.u05_typed import width_range, allowed_formula, expected_names
from checks.common import layout, sym_equal, concretize

FUNCS = [
    "tpmstream.spec.common.base_type:_INT.__init__", "tpmstream.spec.common.base_type:_INT.is_valid", "tpmstream.spec.common.base_type:_INT.to_bytes",
    "tpmstream.spec.common.base_type:_INT.__format__", "tpmstream.spec.common.base_type:_INT.__str__", "tpmstream.spec.common.base_type:numeric.<locals>.*",
    "tpmstream.spec.common.values:ValidValues.get", "tpmstream.spec.common.values:ValidValues.__contains__", "tpmstream.spec.common.values:NamedRange.__contains__",
    "tpmstream.spec.common.values:NamedRange.by_number", "tpmstream.spec.common.values:tpm_enum.<locals>._tpm_enum.<locals>.__init__",
    "tpmstream.spec.common.values:tpm_enum.<locals>._tpm_enum.<locals>.by_value", "tpmstream.spec.common.values:tpm_enum.<locals>._tpm_enum.<locals>.class_contains",
    "tpmstream.spec.common.values:tpm_enum.<locals>._tpm_enum.<locals>.class_iter", "tpmstream.spec.common.values:tpm_enum.<locals>._tpm_enum.<locals>.__format__",
    "tpmstream.spec.structures.constants:AlgValue.__init__", "tpmstream.spec.structures.constants:AlgValue.to_bytes",
]

BIN_OPS = ["add", "sub", "mul", "truediv", "floordiv", "mod", "pow", "lshift", "rshift", "and", "xor", "or"]
CMP_OPS = ["lt", "le", "eq", "ne", "gt", "ge"]
INTERNAL = (AssertionError, TypeError, KeyError, IndexError, RuntimeError, AttributeError, NameError, ValueError, ZeroDivisionError, OverflowError)


def prim_types():
    from tpmstream.spec.structures import structures_types

    return [t for t in structures_types if hasattr(t, "_int_size")]


def get_type(tname):
    return next(t for t in prim_types() if t.__name__ == tname)


def construct(ctx, T, P):
    lo, hi = width_range(P)
    v = ctx.fresh_int("v", lo, hi)
    I = Interp(ctx)
    obj = run_sync(I.call(T, (S.SInt(v),), {}))
    return I, v, obj


def _guard(ctx, name, thunk, site=""):
    """run a piece of interpreted code; an internal error is a refuted safety obligation"""
    try:
        return True, thunk()
    except PyExc as e:
        ctx.record(name + "/no-internal-error", False, "safety", e.site or site, detail=repr(e.exc))
        return False, None


def obligations_for(ctx, I, T, P, v, obj, which):
    site = f"{T.__module__}:{T.__name__}"
    if "INT" in which:
        ok, r = _guard(ctx, "INT", lambda: run_sync(I.call(int, (obj,), {})))
        if ok:
            ctx.oblige("INT/int-of-typed-is-the-integer", sym_equal(r, S.SInt(v)), site=site)
        ok, r = _guard(ctx, "INDEX", lambda: run_sync(I.call(I.getattr_(obj, "__index__"), (), {})))
        if ok:
            ctx.oblige("INT/index-of-typed-is-the-integer", sym_equal(r, S.SInt(v)), site=site)
    if "VALID" in which:
        ok, r = _guard(ctx, "VALID", lambda: run_sync(I.call(I.getattr_(obj, "is_valid"), (), {})))
        if ok:
            exp = allowed_formula(P, v)
            if isinstance(r, S.SBool):
                ctx.oblige("VALID/is_valid-iff-in-declared-set", r.t == exp, site=site)
            elif isinstance(r, bool):
                ctx.oblige("VALID/is_valid-iff-in-declared-set", exp if r else z3.Not(exp), site=site, detail=f"is_valid() = {r}")
            else:
                ctx.record("VALID/is_valid-iff-in-declared-set", False, site=site, detail=f"is_valid() returned {r!r}")
    if "BYTES" in which:
        ok, r = _guard(ctx, "BYTES", lambda: run_sync(I.call(I.getattr_(obj, "to_bytes"), (), {})))
        if ok:
            w = P["width"]
            exp = S.SBytes([z3.simplify((v / z3.IntVal(256 ** (w - 1 - i))) % 256) for i in range(w)])
            g = sym_equal(r, exp) if isinstance(r, (S.SBytes, bytes)) else False
            if isinstance(g, bool):
                ctx.record("BYTES/big-endian-twos-complement-of-declared-width", g, site=site, detail=f"to_bytes() = {r!r}")
            else:
                ctx.oblige("BYTES/big-endian-twos-complement-of-declared-width", g, site=site)
    if "NAME" in which and P.get("text") != "bitfield":
        # (attribute words have no member names for values: their text and bit rows are C17 / C18)
        for how in ("format", "str"):
            ok, r = _guard(ctx, f"NAME/{how}", lambda: run_sync(I.call(format, (obj, ""), {})) if how == "format" else run_sync(I.call(str, (obj,), {})))
            if not ok:
                continue

            def goal(names, r=r):
                if not names:
                    return True  # no declared member name for this value: the property is silent
                alts = [sym_equal(r, n) for n in names]
                if any(a is True for a in alts):
                    return True
                alts = [a for a in alts if a is not False]
                if not alts:
                    return False
                return z3.Or(alts)

            check_against_spec(ctx, f"NAME/{how}-is-declared-member-name", lambda env: expected_names(env, P, v, T.__name__), goal, site=site)
    if "HASH" in which:
        ok, r = _guard(ctx, "HASH", lambda: run_sync(I.call(hash, (obj,), {})))
        if ok:
            ctx.oblige("HASH/hash-of-typed-is-hash-of-int", sym_equal(r, S.SInt(M.py_int_hash(v))), site="base_type.py:numeric.__hash__")
    if "OPS" in which:
        w = ctx.fresh_int("w")
        ws = S.SInt(w)
        # the plain integer to compare with: v itself, or its value when the path pins it (a member was matched)
        vs = S.SInt(v)
        if ctx.solver.check() == "sat":
            k = ctx.solver.model().eval(v, model_completion=True).as_long()
            if ctx.solver.check(v != k) == "unsat":
                vs = k

        def outcome(thunk):
            try:
                return ("ok", thunk())
            except PyExc as e:
                return ("exc", type(e.exc).__name__)

        def same(nm, act, exp):
            site = f"base_type.py:numeric.{nm}"
            if act[0] != exp[0]:
                ctx.record(f"OPS/{nm}-as-plain-integer", False, site=site, detail=f"got {act!r} expected {exp!r}")
                return
            if act[0] == "exc":
                ctx.record(f"OPS/{nm}-as-plain-integer", act[1] == exp[1], site=site, detail=f"got {act!r} expected {exp!r}")
                return
            g = sym_equal(act[1], exp[1])
            if isinstance(g, bool):
                ctx.record(f"OPS/{nm}-as-plain-integer", g, site=site, detail=f"got {act[1]!r} expected {exp[1]!r}")
            else:
                ctx.oblige(f"OPS/{nm}-as-plain-integer", g, site=site)

        def plain(op, a, b):
            r = M.sym_binop(I, op, a, b) if (isinstance(a, S.Sym) or isinstance(b, S.Sym)) else I.native(getattr(operator, {"and": "and_", "or": "or_"}.get(op, op)), (a, b), {})
            return r

        for op in BIN_OPS:
            for refl in (False, True):
                nm = f"__{'r' if refl else ''}{op}__"
                act = outcome(lambda: run_sync(I.call(I.getattr_(obj, nm), (ws,), {})))
                exp = outcome(lambda: plain(op, ws, vs) if refl else plain(op, vs, ws))
                same(nm, act, exp)
        for op in CMP_OPS:
            nm = f"__{op}__"
            act = outcome(lambda: run_sync(I.call(I.getattr_(obj, nm), (ws,), {})))
            exp = outcome(lambda: M.sym_compare(I, op, vs, ws))
            same(nm, act, exp)
        act = outcome(lambda: run_sync(I.call(I.getattr_(obj, "__divmod__"), (ws,), {})))
        exp = outcome(lambda: (plain("floordiv", vs, ws), plain("mod", vs, ws)))
        same("__divmod__", act, exp)
        act = outcome(lambda: run_sync(I.call(I.getattr_(obj, "__rdivmod__"), (ws,), {})))
        exp = outcome(lambda: (plain("floordiv", ws, vs), plain("mod", ws, vs)))
        same("__rdivmod__", act, exp)
        vs = S.SInt(v)
        # equality with the plain integer itself, both operand orders, through the interpreter's data model
        import ast
        for a, b, nm in ((obj, vs, "typed==int"), (vs, obj, "int==typed")):
            ok, r = _guard(ctx, f"OPS/{nm}", lambda: run_sync(I.compare(ast.Eq, a, b)))
            if ok:
                if isinstance(r, S.SBool):
                    ctx.oblige(f"OPS/{nm}", r.t, site="base_type.py:numeric.__eq__")
                else:
                    ctx.record(f"OPS/{nm}", r is True, site="base_type.py:numeric.__eq__")


def unit_class(tname, which=("INT", "VALID", "BYTES", "NAME", "HASH", "OPS")):
    T = get_type(tname)
    P = layout()["primitives"].get(tname)
    u = UnitResult(f"C16/{tname}")
    u.functions = FUNCS
    if P is None:
        u.obligations.append({"name": f"C16/{tname}/in-pinned-layout", "kind": "table", "site": tname, "status": "refuted", "backend": "evaluation", "seconds": 0, "model": None, "detail": "type not in spec/layout.json"})
        return u
    ok = (T._int_size == P["width"] and bool(T._signed) == P["signed"])
    u.obligations.append({"name": f"C16/{tname}/width-and-signedness-as-pinned", "kind": "table", "site": tname, "status": "proved" if ok else "refuted", "backend": "evaluation", "seconds": 0, "model": None,
                          "detail": f"{T._int_size}/{T._signed} vs pinned {P['width']}/{P['signed']}"})

    def run(ctx):
        try:
            I, v, obj = construct(ctx, T, P)
        except PyExc as e:
            ctx.record("CONSTRUCT/no-internal-error", False, "safety", e.site or "", detail=repr(e.exc))
            return ("raise", e)
        ctx.record("CONSTRUCT/no-internal-error", True, "safety")
        obligations_for(ctx, I, T, P, v, obj, which)
        ctx.record("FRAME/no-write-to-shared-state", not ctx.frame_writes, "frame", detail="; ".join(ctx.frame_writes[:3]))
        return ("return", obj)

    res = explore(run, max_paths=5000)
    u.add_paths(res, f"C16/{tname}")
    if res:
        r = res[len(res) // 2]
        u.samples.append({"type": tname, "paths": len(res), "sample_path_decisions": r.decisions[:12], "obligations_on_it": len(r.ctx.obligations)})
    return u


def unit_canary():
    """wrong specs must be refuted: little-endian bytes; is_valid for a set one larger"""
    from tpmstream.spec.structures.base_types import UINT16
    from tpmstream.spec.structures.interface_types import TPMI_YES_NO

    u = UnitResult("C16/canary")
    P = layout()["primitives"]["UINT16"]

    def run(ctx):
        I, v, obj = construct(ctx, UINT16, P)
        r = run_sync(I.call(I.getattr_(obj, "to_bytes"), (), {}))
        exp = S.SBytes([z3.simplify((v / z3.IntVal(256**i)) % 256) for i in range(2)])
        ctx.oblige("canary-le", sym_equal(r, exp))
        return ("return", None)

    res = explore(run)
    u.canaries.append({"name": "C16 little-endian to_bytes", "refuted": any(o.status == "refuted" for r in res for o in r.ctx.obligations)})
    P2 = layout()["primitives"]["TPMI_YES_NO"]

    def run2(ctx):
        I, v, obj = construct(ctx, TPMI_YES_NO, P2)
        r = run_sync(I.call(I.getattr_(obj, "is_valid"), (), {}))
        exp = z3.And(v >= 0, v <= 2)
        ctx.oblige("canary-valid", S.bterm(r) == exp)
        return ("return", None)

    res = explore(run2)
    u.canaries.append({"name": "C16 is_valid for a set one larger", "refuted": any(o.status == "refuted" for r in res for o in r.ctx.obligations)})
    return u


# ---------------------------------------------------------------------------------------------
# replay on the real code


def _native_check(T, P, ob_name, v, w):
    """does the real code violate the obligation for concrete v (and w)? returns (violated, expected, actual)"""
    part = ob_name.split("/")
    kind = part[2]
    what = part[3] if len(part) > 3 else ""
    t = T(v)
    if kind == "INT":
        act = int(t) if "int-of" in what else operator.index(t)
        return act != v, v, act
    if kind == "VALID":
        exp = any((v == it["point"]) if "point" in it else (it["range"][0] <= v < it["range"][1]) for it in P["allowed"])
        act = t.is_valid()
        return bool(act) != exp, exp, act
    if kind == "BYTES":
        exp = v.to_bytes(P["width"], "big", signed=P["signed"])
        act = t.to_bytes()
        return act != exp, exp.hex(), act.hex() if isinstance(act, bytes) else repr(act)
    if kind == "NAME":
        names = []
        for it in P["allowed"]:
            if "owner" not in it:
                continue
            for q in {it["owner"], T.__name__}:
                if "point" in it and v == it["point"]:
                    names.append(f"{q}.{it['name']}")
                elif "range" in it and it["range"][0] <= v < it["range"][1]:
                    names.append(f"{q}.{it['base']}{it['sep']}{v - it['range'][0]:0{it['nibbles']}x}")
        act = format(t, "") if what.startswith("format") else str(t)
        return bool(names) and act not in names, names, act
    if kind == "HASH":
        return hash(t) != hash(v), hash(v), hash(t)
    if kind == "OPS":
        nm = what.split("-")[0]
        if nm in ("typed==int", "int==typed"):
            act = (t == v) if nm == "typed==int" else (v == t)
            return act is not True, True, act
        base = nm.strip("_")
        refl = base.startswith("r") and base[1:] in BIN_OPS + ["divmod"]
        opn = base[1:] if refl else base
        f = {"and": operator.and_, "or": operator.or_, "divmod": divmod}.get(opn) or getattr(operator, opn)
        def safe(fn):
            try:
                return ("ok", fn())
            except Exception as e:
                return ("exc", type(e).__name__)
        if opn in ("pow", "lshift"):
            e = v if refl else w
            if not (-64 <= e <= 64):
                return None, None, None  # not replayable natively (astronomically large result)
        exp = safe(lambda: f(w, v) if refl else f(v, w))
        act = safe(lambda: getattr(t, nm)(w))
        return exp != act, exp, act
    return None, None, None


def replayer(obd):
    name = obd["name"]
    part = name.split("/")
    if len(part) < 3:
        return {"reproduced": None}
    tname = part[1]
    try:
        T = get_type(tname)
    except StopIteration:
        return {"reproduced": None}
    P = layout()["primitives"].get(tname)
    if obd.get("kind") in ("table", "frame"):
        return {"reproduced": True, "detail": obd.get("detail")}
    m = obd.get("model") or {}
    v = next((x for k, x in m.items() if k.startswith("v!")), None)
    w = next((x for k, x in m.items() if k.startswith("w!")), 3)
    if v is None:
        return {"reproduced": None}
    cands = [(v, w)]
    lo, hi = width_range(P)
    rnd = random.Random(1)
    for _ in range(200):
        cands.append((rnd.choice([v, lo, hi, rnd.randint(lo, hi)]), rnd.choice([w, 0, 1, 2, 3, -1, 5, 7, rnd.randint(-70, 70)])))
    first = None
    for cv, cw in cands:
        try:
            bad, exp, act = _native_check(T, P, name, cv, cw)
        except Exception as e:
            bad, exp, act = True, "no exception", f"raises {type(e).__name__}: {e}"
        if first is None:
            first = (exp, act)
        if bad:
            return {"reproduced": True, "input": {"type": tname, "value": cv, "other_operand": cw}, "expected": repr(exp), "actual": repr(act)}
        if bad is None:
            continue
    if first is None or first == (None, None):
        return {"reproduced": None}
    return {"reproduced": False, "input": {"type": tname, "value": v, "other_operand": w}, "expected": repr(first[0]), "actual": repr(first[1])}


def unit_ops_bounded(chunk):
    """bounded stand-in (never counted as proved): the arithmetic and comparison dunders with operands that are not integers
    (float, bool, None, str) and with concrete integer operands where the symbolic unit treats the
    operation as uninterpreted (shifts, powers, bit operations): for sample values of every class, typed OP x and x OP typed
    give what int(value) OP x gives - the same result or the same exception class"""
    import operator
    from decimal import Decimal
    from fractions import Fraction

    u = UnitResult(f"XOPS/{chunk[0]}..{chunk[-1]}")
    u.functions = FUNCS
    L = layout()["primitives"]
    ops = {n: getattr(operator, n if n not in ("and", "or") else n + "_") for n in BIN_OPS + CMP_OPS}
    ops["divmod"] = divmod
    others = [0.5, 5.5, -1.5, 2.0, True, None, "3", 3, -3, 0, 7, 64, 2**63]  # (Fraction / Decimal / complex operands are not claimed: their own reflected-operand rules differ for foreign number types)

    def out(f):
        try:
            r = f()
            if isinstance(r, float) and r != r:
                return ("value", "nan")
            return ("value", r if not hasattr(r, "_pyvc_typed") else int(r))
        except Exception as e:  # noqa
            return ("raise", type(e).__name__)

    dis, n = [], 0
    for tname in chunk:
        T = get_type(tname)
        P = L[tname]
        lo = -(1 << (8 * P["width"] - 1)) if P["signed"] else 0
        hi = (1 << (8 * P["width"] - (1 if P["signed"] else 0))) - 1
        vals = []
        for v in (0, 1, 5, lo, hi):
            try:
                vals.append((v, T(v)))
            except Exception:  # noqa
                pass
        for v, tv in vals[:4]:
            for x in others:
                if isinstance(x, int) and not isinstance(x, bool) and abs(x) > 64 and abs(v) > 2**16:
                    continue  # avoid astronomically large powers / shifts
                for nm, f in ops.items():
                    if nm in ("pow", "lshift") and isinstance(x, int) and not isinstance(x, bool) and (abs(x) > 64 or abs(v) > 2**16):
                        continue
                    for side in ("left", "right"):
                        n += 1
                        a = out((lambda: f(tv, x)) if side == "left" else (lambda: f(x, tv)))
                        e = out((lambda: f(v, x)) if side == "left" else (lambda: f(x, v)))
                        if a != e and not (a[0] == e[0] == "value" and isinstance(a[1], (int, float)) and isinstance(e[1], (int, float)) and not isinstance(a[1], bool) and a[1] == e[1] and type(a[1]) is type(e[1])):
                            dis.append({"input": {"type": tname, "value": v, "operand": repr(x), "op": nm, "side": side}, "detail": f"{tname}({v}) {nm} {x!r} ({side}): {a}, the plain integer gives {e}", "site": "base_type.py:numeric"})
    u.bounded.append({"name": f"operators/{chunk[0]}..{chunk[-1]}", "bound": "up to 4 sample values per class x 13 operands (float, bool, None, str, small and large ints) x 19 operators x both sides", "evaluations": n, "disagreements": dis[:8], "all_disagreements": len(dis)})
    u.obligations.append({"name": f"{u.name}/ran", "kind": "bounded-bookkeeping", "site": "", "status": "proved", "backend": "bookkeeping", "seconds": 0, "model": None, "detail": f"{n} operations"})
    return u


def unit_names_bounded(chunk):
    """bounded stand-in (never counted as proved): the text form of concrete values - every declared single value and, for each
    named range, its first three, one in the middle and its last two members - against the declared name computed from the
    pinned layout; it decides where the symbolic string comparison is undecided (texts of another shape)"""
    u = UnitResult(f"XNAMES/{chunk[0]}..{chunk[-1]}")
    u.functions = FUNCS
    L = layout()["primitives"]
    dis, n = [], 0
    for tname in chunk:
        T = get_type(tname)
        for it in L[tname]["allowed"]:
            if "owner" not in it:
                continue
            if "point" in it:
                cases = [(it["point"], [f"{it['owner']}.{it['name']}", f"{tname}.{it['name']}"])]
            else:
                lo, hi = it["range"]
                vs = sorted({v for v in (lo, lo + 1, lo + 2, (lo + hi) // 2, hi - 2, hi - 1) if lo <= v < hi})
                cases = [(v, [f"{q}.{it['base']}{it['sep']}{v - lo:0{it['nibbles']}x}" for q in (it["owner"], tname)]) for v in vs]
            for v, want in cases:
                # a value may be declared more than once (aliases): any declared name is fine
                others = [f"{o['owner']}.{o['name']}" for o in L[tname]["allowed"] if "point" in o and "owner" in o and o["point"] == v] + \
                         [f"{tname}.{o['name']}" for o in L[tname]["allowed"] if "point" in o and "owner" in o and o["point"] == v]
                n += 1
                try:
                    tv = T(v)
                    got = {"str": str(tv), "format": format(tv, "")}
                except Exception as e:  # noqa
                    got = {"error": f"{type(e).__name__}: {e}"}
                for how, text in got.items():
                    if how == "error" or text not in want + others:
                        dis.append({"input": {"type": tname, "value": hex(v)}, "detail": f"{how}({tname}({v:#x})) = {text!r}, declared name {want[0]!r}", "site": "base_type.py / values.py"})
    u.bounded.append({"name": f"names/{chunk[0]}..{chunk[-1]}", "bound": "every declared single value; first three, middle and last two members of every named range", "evaluations": n, "disagreements": dis[:8], "all_disagreements": len(dis)})
    u.obligations.append({"name": f"{u.name}/ran", "kind": "bounded-bookkeeping", "site": "", "status": "proved", "backend": "bookkeeping", "seconds": 0, "model": None, "detail": f"{n} values"})
    return u


def run(tier, seed, only=None, pid="C16", which=("INT", "VALID", "BYTES", "NAME", "HASH", "OPS")):
    rep = Report(pid, tier, seed, "proof", f"./check {pid} (pyvc: the real typed-integer machinery interpreted per class over a symbolic integer; z3/cvc5)",
                 explanation="for each primitive class, every path of the real construction/validity/serialisation/naming/operator code over a symbolic integer in the type's width meets the spec derived from the pinned layout")
    rep.trusted_base = ["pyvc's reading of Python (DESIGN §2.8)", "z3/cvc5", "int.to_bytes / from_bytes / hash(int) modelled exactly (two's complement, 2^61-1 modulus)",
                        "/, **, <<, >> and bitwise operators with two symbolic operands are uninterpreted functions (congruence argument: the dunder returns op(int(self), other))",
                        "dict/hash consistency for numeric-like keys", "allowed sets and names from spec/layout.json (C20 proves the tables equal it)"]
    rep.assumptions = ["v ranges over the integers representable in the type's width (the property's quantifier)"]
    rep.replayer = replayer
    names = sorted(t.__name__ for t in prim_types())
    jobs = [(unit_class, (n, which)) for n in names]
    jobs.append((unit_canary, ()))
    if "OPS" in which:
        jobs += [(unit_ops_bounded, (tuple(names[i:i + 8]),)) for i in range(0, len(names), 8)]
    if "NAME" in which:
        jobs += [(unit_names_bounded, (tuple(names[i:i + 13]),)) for i in range(0, len(names), 13)]
    if only:
        jobs = [j for j in jobs if only in repr(j)]
    # biggest first for load balance
    big = {"TPM_CC": 0, "TPM_ALG": 1, "TPM_ALG_ID": 1, "TPM_RC": 2}
    jobs.sort(key=lambda j: big.get(j[1][0] if j[1] and isinstance(j[1][0], str) else "", 9))
    rep.add(run_units(jobs))
    rep.min_obligations = 1000
    return rep.finish()
