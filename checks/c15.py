"""C15 — hex, swtpm-log, pcapng and auto inputs decode like the bytes they carry.

Scanners: step refinement over the full finite domain (every reachable scanner state x every input byte / end of input):
one iteration of the real loop body, executed by the interpreter from that state, must equal one step of a spec automaton
written from the property statement.  Wrappers: arguments passed through unchanged, events re-yielded unchanged.
pcapng: the code after dpkt over symbolic payload bytes; dpkt itself is an assumed contract."""
from __future__ import annotations

import itertools

import z3

from pyvc import sym as S
from pyvc.explore import explore, Ctx
from pyvc.harness import Report, UnitResult, run_units
from pyvc.interp import Interp, IGen, PyExc, PathEnd, Unsupported, run_sync
from pyvc.loops import OneStepLoop
from checks.common import mod

WS = b" \t\n\r\x0b\x0c"
HEX = b"0123456789abcdefABCDEF"


class Counting:
    def __init__(self, items):
        self.items = list(items)
        self.n = 0

    def __iter__(self):
        return self

    def __next__(self):
        if self.n >= len(self.items):
            raise StopIteration
        self.n += 1
        return self.items[self.n - 1]


def run_step(fn, qual, state, feed):
    """one iteration of fn's (first) loop from `state` with the remaining input `feed`; returns dict(yields, outcome, locals, consumed)"""
    ctx = Ctx()
    src = Counting(feed)
    I = Interp(ctx, loop_specs={(qual, 0): OneStepLoop(state, kind="while")})
    g = run_sync(I.call(fn, (src,), {}))
    ys = []
    outcome = None
    try:
        while True:
            ys.append(g.g.send(None))
    except StopIteration as e:
        outcome = ("return", e.value)
    except PathEnd:
        outcome = ("next-iteration", None)
    except PyExc as e:
        outcome = ("raise", type(e.exc).__name__)
    st = ctx.ghost.get("step", {})
    return {"yields": ys, "outcome": outcome, "locals": st.get("locals", {}), "consumed": src.n}


# ---------------------------------------------------------------------------------------------
# hex


def hex_spec(high, low, feed):
    """spec automaton of the hex scanner (property: whitespace anywhere is skipped, the rest must be pairs of hex digits)"""
    if not high.strip(WS):
        if not feed:
            return {"outcome": ("return", None), "yields": [], "consumed": 0}
        return {"outcome": ("next-iteration", None), "yields": [], "consumed": 1, "high": bytes([feed[0]]), "low": low}
    if not low.strip(WS):
        if not feed:
            return {"outcome": ("raise", "ValueError"), "yields": [], "consumed": 0}
        return {"outcome": ("next-iteration", None), "yields": [], "consumed": 1, "high": high, "low": bytes([feed[0]])}
    if high in [bytes([c]) for c in HEX] and low in [bytes([c]) for c in HEX]:
        return {"outcome": ("next-iteration", None), "yields": [int(high + low, 16)], "consumed": 0, "high": b"", "low": b""}
    return {"outcome": ("raise", "ValueError"), "yields": [], "consumed": 0}


def unit_hex(chunk):
    H = mod("tpmstream.io.hex.marshal")
    u = UnitResult(f"C15/HEX/{chunk[0]}-{chunk[-1]}")
    u.functions = ["tpmstream.io.hex.marshal:parse_hex_string"]
    n = 0

    def ob(name, ok, detail):
        u.obligations.append({"name": f"C15/HEX/{name}", "kind": "step", "site": "hex/marshal.py:parse_hex_string", "status": "proved" if ok else "refuted",
                              "backend": "evaluation", "seconds": 0, "model": None, "detail": detail})

    def check(high, low, feed, name):
        r = run_step(H.parse_hex_string, "parse_hex_string", {"high_nibble": high, "low_nibble": low}, feed)
        e = hex_spec(high, low, feed)
        ok = r["outcome"] == e["outcome"] and r["yields"] == e["yields"] and r["consumed"] == e["consumed"]
        if ok and e["outcome"][0] == "next-iteration":
            ok = r["locals"].get("high_nibble") == e["high"] and r["locals"].get("low_nibble") == e["low"]
        if not ok:
            ob(name, False, f"state high={high!r} low={low!r} input={feed!r}: got {r['outcome']} yields {r['yields']} consumed {r['consumed']} -> ({r['locals'].get('high_nibble')!r},{r['locals'].get('low_nibble')!r}); expected {e}")
        return ok

    try:
        run_step(H.parse_hex_string, "parse_hex_string", {"high_nibble": b"", "low_nibble": b""}, [])
    except Unsupported as e:
        # the scanner no longer has the loop / state the step rule speaks about: undecided here, the bounded stand-in decides
        u.unsupported.append(f"C15/HEX/{chunk[0]}-{chunk[-1]}: {e}")
        return u
    for h in chunk:
        hb = bytes([h])
        good = True
        # (S3) both nibbles present: all 256 low bytes
        if not hb.strip(WS) == b"":
            for l in range(256):
                lb = bytes([l])
                if lb.strip(WS) == b"":
                    continue
                n += 1
                good &= check(hb, lb, [0x41], f"pair/{h:02x}{l:02x}")
        # (S1)/(S2) from states (empty|ws high), (h, empty|ws low): every input byte and end of input
        for c in list(range(256)) + [None]:
            feed = [] if c is None else [c]
            n += 2
            good &= check(b"" if h % 2 else b" ", b"", feed, f"fill-high/{'eof' if c is None else f'{c:02x}'}") if h < 2 else True
            if hb.strip(WS):
                good &= check(hb, b"" if c is None or c % 2 else b"\n", feed, f"fill-low/{h:02x}/{'eof' if c is None else f'{c:02x}'}")
        ob(f"steps-from-high-{h:02x}", good, "every step from the states with this high nibble equals the spec step") if good else None
    u.stats = {"steps": n}
    u.paths = n
    return u


class EntryLoop:
    """loop spec: record the locals at the loop head and stop (base case of a step refinement)"""

    def run(self, I, node, frame):
        I.ctx.ghost["entry"] = dict(frame.locals)
        raise PathEnd("entry")
        yield


def unit_hex_entry(which="hex"):
    """base case of the hex (and, with which="swtpm", the swtpm-log) step refinement: whatever kind of source is handed in, the code in front of the loop reaches the
    loop head without an exception or a yielded byte, in the start state (no nibble held), with an iterator over exactly the
    source's items, none consumed.  list / tuple / iterator / generator sources carry opaque items (so the statement holds for
    every content of that length, lengths 0-3); bytes and bytearray cannot carry opaque items and are evaluated for every text
    of at most 3 characters over the alphabet of the bounded stand-in (that part is a finite sample of contents)."""
    H = mod("tpmstream.io.hex.marshal" if which == "hex" else "tpmstream.io.swtpm_log.marshal")
    TAG = "HEX" if which == "hex" else "SWTPM"
    start = {"high_nibble": b"", "low_nibble": b""} if which == "hex" else {"state": 0, "marker": b"", "value": b""}
    u = UnitResult(f"C15/{TAG}/entry")
    u.functions = [f"{H.__name__}:parse_hex_string"]

    def ob(name, ok, detail):
        u.obligations.append({"name": f"C15/{TAG}/entry/{name}", "kind": "step", "site": f"{'hex' if which == 'hex' else 'swtpm_log'}/marshal.py:parse_hex_string", "status": "proved" if ok else "refuted",
                              "backend": "evaluation", "seconds": 0, "model": None, "detail": detail})

    def gen_of(items):
        yield from items

    alphabet = [0x30, 0x39, 0x61, 0x46, 0x20, 0x0A, 0x67, 0x2B, 0xA0]
    texts = [bytes(t) for n in range(0, 4) for t in itertools.product(alphabet, repeat=n)]
    opaque = [[object() for _ in range(n)] for n in range(0, 4)]
    kinds = [("list", list, opaque), ("tuple", tuple, opaque), ("iterator", Counting, opaque), ("generator", gen_of, opaque),
             ("bytes", bytes, texts), ("bytearray", bytearray, texts)]
    n = 0
    import ast, inspect, textwrap
    if not any(isinstance(x, ast.While) for x in ast.walk(ast.parse(textwrap.dedent(inspect.getsource(H.parse_hex_string))))):
        u.unsupported.append(f"C15/{TAG}/entry: the scanner has no while loop; the step rule does not apply (the bounded stand-in decides)")
        return u
    for kind, mk, contents in kinds:
        bad = None
        for items in contents:
            n += 1
            ctx = Ctx()
            src = mk(items)
            I = Interp(ctx, loop_specs={("parse_hex_string", 0): EntryLoop()})
            outcome, ys = None, []
            try:
                g = run_sync(I.call(H.parse_hex_string, (src,), {}))
                while True:
                    ys.append(g.g.send(None))
            except PathEnd:
                outcome = "loop-head"
            except StopIteration:
                outcome = "returned before the loop"
            except PyExc as e:
                outcome = f"raised {type(e.exc).__name__} before the loop"
            except Unsupported as e:
                u.unsupported.append(f"C15/{TAG}/entry/{kind}: {e}")
                return u
            loc = ctx.ghost.get("entry", {})
            if outcome != "loop-head" or ys:
                # the code ended (or produced bytes) in front of the loop: that is judged against the whole-input spec where
                # the content is concrete; with opaque items (or a scanner without that loop) the rule does not apply
                if outcome == "loop-head" or isinstance(items, list) or which != "hex":
                    u.unsupported.append(f"C15/{TAG}/entry/{kind}: {outcome} with {len(ys)} bytes yielded in front of the loop; the step rule does not apply to this scanner")
                    return u
                err = None if outcome.startswith("returned") else outcome.split()[1]
                if (ys, err) != hex_text_spec(items):
                    bad = f"text {items!r}: {outcome} after {ys} , expected {hex_text_spec(items)}"
            elif any(type(loc.get(k)) is not type(v) or loc.get(k) != v for k, v in start.items()):
                bad = f"loop entered with {({k: loc.get(k) for k in start})!r}, the start state is {start!r}"
            else:
                buf = loc.get("buffer")
                try:
                    is_iter = iter(buf) is buf
                    rest = list(buf)
                except Exception as e:  # noqa
                    is_iter, rest = False, None
                want = list(items)
                if not is_iter or rest is None or len(rest) != len(want) or any(a is not b and a != b for a, b in zip(rest, want)):
                    bad = f"{len(items)} items ({items!r:.40}): the loop does not start with an iterator over exactly the source's items (got {rest!r:.60})"
            if bad:
                break
        ob(kind, bad is None, bad or f"{len(contents)} contents")
    u.stats = {"entries": n}
    u.paths = n
    return u


def hex_text_spec(text):
    """whole-input spec of the hex front-end: whitespace anywhere is skipped, the rest are pairs of hex digits; bytes of the
    leading well-formed pairs, then 'ValueError' at the first malformed pair or a dangling digit"""
    digits = [bytes([c]) for c in text if bytes([c]).strip(WS)]
    out = []
    for i in range(0, len(digits) - 1, 2):
        pair = digits[i] + digits[i + 1]
        if not all(c in HEX for c in pair):
            return out, "ValueError"
        out.append(int(pair, 16))
    if len(digits) % 2:
        return out, "ValueError"
    return out, None


def unit_hex_bounded(maxlen, part, parts):
    """bounded stand-in (never counted as proved): every text of at most maxlen characters over a small alphabet through the
    real parse_hex_string, against the whole-input spec"""
    H = mod("tpmstream.io.hex.marshal")
    u = UnitResult(f"XHEX/len<={maxlen}/part{part}")
    u.functions = ["tpmstream.io.hex.marshal:parse_hex_string"]
    alphabet = [0x30, 0x39, 0x61, 0x46, 0x20, 0x0A, 0x67, 0x2B, 0xA0]
    n, dis = 0, []
    k = 0
    for length in range(0, maxlen + 1):
        for t in itertools.product(alphabet, repeat=length):
            k += 1
            if k % parts != part:
                continue
            n += 1
            text = bytes(t)
            want = hex_text_spec(text)
            # the same text from every kind of byte source (C10: the result must not depend on how the bytes are supplied)
            for kind, src in (("iterator", iter(text)), ("bytes", text), ("bytearray", bytearray(text)), ("list", list(text))):
                got, err = [], None
                try:
                    for b in H.parse_hex_string(src):
                        got.append(b)
                except Exception as e:  # noqa
                    err = type(e).__name__
                if (got, err) != want:
                    dis.append({"input": {"text": text.hex(), "source": kind}, "detail": f"hex text {text!r} supplied as {kind}: bytes {got} then {err}, expected {want}", "site": "hex/marshal.py:parse_hex_string"})
                    break
    u.bounded.append({"name": f"hex-texts/len<={maxlen}/part{part}", "bound": f"all texts of at most {maxlen} characters over 0 9 a F space newline g + 0xa0", "evaluations": n, "disagreements": dis[:8], "all_disagreements": len(dis)})
    u.obligations.append({"name": f"{u.name}/ran", "kind": "bounded-bookkeeping", "site": "", "status": "proved", "backend": "bookkeeping", "seconds": 0, "model": None, "detail": f"{n} texts"})
    return u


# ---------------------------------------------------------------------------------------------
# swtpm log

MARK = b"SWTPM_IO"
UHEX = b"0123456789ABCDEF"


def swtpm_spec(state, marker, value, feed):
    """spec automaton from the documented layout: free text / control sections are skipped until the literal SWTPM_IO,
    the rest of that line is a header, then upper-case hex pairs separated by blanks and newlines are payload until the
    next section (a line starting with S... or Ct...)"""
    b = bytes([feed[0]]) if feed else None
    out = {"yields": [], "consumed": 1 if feed else 0, "outcome": ("next-iteration", None), "state": state, "marker": marker, "value": value}
    if state == 0:  # scanning for the marker
        if b is None:
            out["outcome"] = ("return", None) if not marker else ("unspecified",)
        elif b == MARK[len(marker):len(marker) + 1]:
            m = marker + b
            if m == MARK:
                out.update(state=1, marker=b"")
            else:
                out.update(marker=m)
        else:
            out.update(marker=b"")
        return out
    if state == 1:  # header line
        if b is None:
            out["outcome"] = ("unspecified",)
        elif b == b"\n":
            out.update(state=2)
        return out
    if state == 2:  # payload, at a pair boundary
        if b is None:
            out["outcome"] = ("return", None)
        elif b in (b" ", b"\r", b"\n"):
            pass
        elif b == b"S":
            out.update(state=0, marker=b"S")
        elif b[0] in UHEX:
            out.update(state=3, value=b)
        else:
            out["outcome"] = ("raise", "ValueError")
        return out
    # state 3: second nibble
    if b is None:
        out["outcome"] = ("raise", "ValueError")
    elif value == b"C" and b == b"t":
        out.update(state=0, value=b"")
    elif b[0] in UHEX:
        out["yields"] = [int(value + b, 16)]
        out.update(state=2, value=b"")
    else:
        out["outcome"] = ("raise", "ValueError")
    return out


def unit_swtpm():
    W = mod("tpmstream.io.swtpm_log.marshal")
    u = UnitResult("C15/SWTPM")
    u.functions = ["tpmstream.io.swtpm_log.marshal:parse_hex_string"]
    states = [(0, MARK[:k], b"") for k in range(len(MARK))] + [(1, b"", b""), (2, b"", b"")] + [(3, b"", bytes([c])) for c in UHEX]
    n = 0
    for st, marker, value in states:
        bad = []
        for c in list(range(256)) + [None]:
            feed = [] if c is None else [c]
            n += 1
            r = run_step(W.parse_hex_string, "parse_hex_string", {"state": st, "marker": marker, "value": value}, feed)
            e = swtpm_spec(st, marker, value, feed)
            if e["outcome"] == ("unspecified",):
                ok = r["outcome"][0] in ("return", "raise") and (r["outcome"][0] != "raise" or r["outcome"][1] == "ValueError")
            else:
                ok = r["outcome"] == e["outcome"] and r["yields"] == e["yields"] and r["consumed"] == e["consumed"]
                if ok and e["outcome"][0] == "next-iteration":
                    loc = r["locals"]
                    ok = loc.get("state") == e["state"] and loc.get("marker") == e["marker"] and loc.get("value") == e["value"]
            if not ok:
                bad.append(f"input {'eof' if c is None else bytes([c])!r}: got {r['outcome']} yields {r['yields']} -> ({r['locals'].get('state')},{r['locals'].get('marker')!r},{r['locals'].get('value')!r}); expected {e}")
        u.obligations.append({"name": f"C15/SWTPM/steps-from-state-{st}-{marker.decode()}-{value.decode()}", "kind": "step", "site": "swtpm_log/marshal.py:parse_hex_string",
                              "status": "proved" if not bad else "refuted", "backend": "evaluation", "seconds": 0, "model": None,
                              "detail": "; ".join(bad[:2]) if bad else "257 inputs: every step equals the spec step"})
    u.paths = n
    return u


# ---------------------------------------------------------------------------------------------
# auto detection


def unit_auto(lo, hi):
    import re

    A = mod("tpmstream.io.auto.marshal")
    u = UnitResult(f"C15/AUTO/{lo:02x}-{hi:02x}")
    u.functions = ["tpmstream.io.auto.marshal:detect_format_and_yield_buffer"]
    bad = []
    n = 0
    tail = [0x80, 0x0A, 0x20, 0x31]
    for a in range(lo, hi + 1):
        for b in range(256):
            for strict in (False,):
                n += 1
                two = bytes([a, b])
                if two == b"\x0a\x0d":
                    exp = "pcapng"
                elif a in HEX and b in HEX:
                    exp = "hex"
                else:
                    exp = "binary"
                # a hex text may also start with white space before/inside its first pair: detection is claimed for texts whose first
                # two characters form a pair (DESIGN §5 C15)
                try:
                    out = list(A.detect_format_and_yield_buffer(iter(list(two) + tail), strict=strict))
                except Exception as e:
                    out = [f"raises {type(e).__name__}"]
                if out[0] != exp or out[1:] != list(two) + tail:
                    bad.append(f"{two.hex()}: {out[:1]} expected {exp}; bytes passed on: {out[1:] == list(two) + tail}")
    u.obligations.append({"name": f"C15/AUTO/detects-by-two-byte-magic-and-passes-every-byte-on/{lo:02x}-{hi:02x}", "kind": "step", "site": "auto/marshal.py:detect_format_and_yield_buffer",
                          "status": "proved" if not bad else "refuted", "backend": "evaluation", "seconds": 0, "model": None, "detail": "; ".join(bad[:3]) if bad else f"{n} two-byte prefixes"})
    u.paths = n
    return u


# ---------------------------------------------------------------------------------------------
# wrappers


def unit_wrapper(which, bufkind="opaque"):
    """Hex / SWTPMLog / Auto / Pcapng .marshal: scanner output becomes the buffer of Binary.marshal, the other arguments pass
    through unchanged, events are re-yielded unchanged"""
    modname = {"hex": "tpmstream.io.hex.marshal", "swtpm": "tpmstream.io.swtpm_log.marshal", "pcapng": "tpmstream.io.pcapng.marshal", "auto": "tpmstream.io.auto.marshal"}[which]
    Mo = mod(modname)
    B = mod("tpmstream.io.binary")
    u = UnitResult(f"C15/WRAP/{which}/{bufkind}")
    u.functions = [f"{modname}:marshal"]

    def run(ctx):
        calls = []
        E1, E2, RES = object(), object(), object()
        SCAN = object()
        T, RP, CC = object(), object(), object()
        # the result must not depend on the kind of iterable supplying the text (C10)
        BUF = {"opaque": object(), "bytes": b"80 01", "bytearray": bytearray(b"8001"), "list": [0x38, 0x30, 0x30, 0x31], "iterator": iter(b"8001")}[bufkind]

        def binary_stub(I, args, kwargs):
            def gen():
                calls.append(("binary", args, dict(kwargs)))
                yield E1
                yield E2
                return RES
            return IGen(gen(), "Binary.marshal")
            yield

        def scan_stub(name):
            def st(I, args, kwargs):
                calls.append((name, args, dict(kwargs)))
                return SCAN
                yield
            return st

        stubs = {B.Binary.marshal: binary_stub}
        if which in ("hex", "swtpm"):
            stubs[Mo.parse_hex_string] = scan_stub("scan")
        elif which == "pcapng":
            stubs[Mo.bytes_from_pcap_file] = scan_stub("scan")
            import io
            stubs[io.BytesIO] = scan_stub("bytesio")
            stubs[bytes] = scan_stub("bytes")
        I = Interp(ctx, stubs=stubs)
        extra = {"abort_on_error": False, "parameter_encryption": None}
        if which == "auto":
            return ("return", None)
        g = run_sync(I.call(Mo.marshal, (), {"tpm_type": T, "buffer": BUF, "root_path": RP, "command_code": CC, **extra}))
        ys = []
        try:
            while True:
                ys.append(g.g.send(None))
        except StopIteration as e:
            ret = e.value
        except PyExc as e:
            ctx.record("no-internal-error", False, "safety", e.site or "", repr(e.exc))
            return ("raise", e)
        b = [c for c in calls if c[0] == "binary"]
        ok = len(b) == 1 and not b[0][1] and b[0][2].get("tpm_type") is T and b[0][2].get("root_path") is RP and b[0][2].get("command_code") is CC \
            and b[0][2].get("buffer") is SCAN and all(b[0][2].get(k) is v for k, v in extra.items()) and set(b[0][2]) == {"tpm_type", "buffer", "root_path", "command_code", *extra}
        ctx.record("passes-arguments-through-and-feeds-the-scanner-output", ok, site=f"{modname}:marshal", detail=f"{[ (c[0], sorted(c[2])) for c in calls]}")
        sc = [c for c in calls if c[0] == "scan"]
        if which in ("hex", "swtpm"):
            ctx.record("scanner-gets-the-callers-buffer", len(sc) == 1 and tuple(sc[0][1]) == (BUF,), site=f"{modname}:marshal")
        ctx.record("re-yields-the-events-unchanged", len(ys) == 2 and ys[0] is E1 and ys[1] is E2, site=f"{modname}:marshal")
        ctx.record("C11/returns-the-object-the-decoder-returns", ret is RES, site=f"{modname}:marshal", detail=f"the front-end returned {ret!r}, the decoder's object is lost" if ret is not RES else "")
        return ("return", ret)

    res = explore(run)
    u.add_paths(res, f"C15/WRAP/{which}/{bufkind}")
    return u


def unit_auto_dispatch():
    """Auto.marshal: the front-end matching the detected format gets the remaining iterator and the caller's arguments"""
    A = mod("tpmstream.io.auto.marshal")
    u = UnitResult("C15/WRAP/auto")
    u.functions = ["tpmstream.io.auto.marshal:marshal"]
    targets = {"pcapng": mod("tpmstream.io.pcapng").Pcapng, "hex": mod("tpmstream.io.hex").Hex, "binary": mod("tpmstream.io.binary").Binary}
    for fmt in ("pcapng", "hex", "binary"):
        def run(ctx, fmt=fmt):
            calls = []
            E1, RES = object(), object()
            T, RP, CC, BUF = object(), object(), object(), object()

            def mk(name):
                def st(I, args, kwargs):
                    def gen():
                        calls.append((name, args, dict(kwargs)))
                        yield E1
                        return RES
                    return IGen(gen(), name)
                    yield
                return st

            stubs = {targets[k].marshal: mk(k) for k in targets}
            REST = iter([fmt, 1, 2, 3])

            def detect(I, args, kwargs):
                calls.append(("detect", args, dict(kwargs)))
                return REST
                yield

            stubs[A.detect_format_and_yield_buffer] = detect
            I = Interp(ctx, stubs=stubs)
            g = run_sync(I.call(A.marshal, (), {"tpm_type": T, "buffer": BUF, "root_path": RP, "command_code": CC, "abort_on_error": False}))
            ys = []
            try:
                while True:
                    ys.append(g.g.send(None))
            except StopIteration as e:
                ret = e.value
            except PyExc as e:
                ctx.record("no-internal-error", False, "safety", e.site or "", repr(e.exc))
                return ("raise", e)
            d = [c for c in calls if c[0] == "detect"]
            ctx.record("detection-reads-the-callers-buffer-leniently", len(d) == 1 and tuple(d[0][1]) == (BUF,) and d[0][2].get("strict") is False, site="auto/marshal.py:marshal", detail=str(d)[:200])
            f = [c for c in calls if c[0] in targets]
            ok = len(f) == 1 and f[0][0] == fmt and f[0][2].get("buffer") is REST and f[0][2].get("tpm_type") is T and f[0][2].get("root_path") is RP and f[0][2].get("command_code") is CC and f[0][2].get("abort_on_error") is False
            ctx.record("matching-front-end-gets-the-rest-and-the-arguments", ok, site="auto/marshal.py:marshal", detail=str([(c[0], sorted(c[2])) for c in f]))
            ctx.record("re-yields-the-events-unchanged", ys == [E1], site="auto/marshal.py:marshal")
            ctx.record("C11/returns-the-object-the-front-end-returns", ret is RES, site="auto/marshal.py:marshal", detail=f"returned {ret!r}" if ret is not RES else "")
            return ("return", ret)

        res = explore(run)
        u.add_paths(res, f"C15/WRAP/auto/{fmt}")

        def run_err(ctx, fmt=fmt):
            """a constraint error raised below carries the byte source as its remaining bytes (C13): the wrapper must hand it on untouched"""
            from tpmstream.common.error import ConstraintViolatedError

            def rest_gen():
                yield fmt
                yield from (1, 2, 3, 4)

            REST = rest_gen()
            err = ConstraintViolatedError("below")

            def mk(name):
                def st(I, args, kwargs):
                    def gen():
                        buf = kwargs.get("buffer")
                        next(buf)  # the decoder consumed one byte, then failed on a byte send
                        err.set_bytes_remaining(buf)
                        raise PyExc(err, "inner")
                        yield
                    return IGen(gen(), name)
                    yield
                return st

            stubs = {targets[k].marshal: mk(k) for k in targets}

            def detect(I, args, kwargs):
                return REST
                yield

            stubs[A.detect_format_and_yield_buffer] = detect
            I = Interp(ctx, stubs=stubs)
            g = run_sync(I.call(A.marshal, (), {"tpm_type": object(), "buffer": object(), "abort_on_error": True}))
            out = None
            try:
                while True:
                    g.g.send(None)
            except StopIteration:
                out = "returned"
            except PyExc as e:
                out = e.exc
            ok = out is err
            ctx.record("constraint-error-from-below-propagates", ok, site="auto/marshal.py:marshal", detail=repr(out)[:100])
            if ok:
                left = list(err.bytes_remaining)
                ctx.record("remaining-bytes-of-the-error-are-left-intact", left == [2, 3, 4], site="auto/marshal.py:marshal", detail=f"remaining {left}, expected [2, 3, 4]")
            return ("return", None)

        res = explore(run_err)
        u.add_paths(res, f"C15/WRAP/auto/{fmt}/error")
    return u


# ---------------------------------------------------------------------------------------------
# pcapng: the code after dpkt


def unit_pcap(n):
    """tpm_pkgs_from_pcap_file for one packet whose payload has n symbolic bytes: skipped if empty or < 10 bytes, else
    trimmed to the big-endian size field at offset 2..5"""
    import dpkt

    Pm = mod("tpmstream.io.pcapng.marshal")
    u = UnitResult(f"C15/PCAP/payload-{n}-bytes")
    u.functions = ["tpmstream.io.pcapng.marshal:tpm_pkgs_from_pcap_file", "tpmstream.io.pcapng.marshal:bytes_from_pcap_file"]

    def run(ctx):
        bs = [ctx.fresh_int(f"p{i}", 0, 255) for i in range(n)]
        blob = S.SBytes(bs) if n else b""

        class Pkg:
            def __init__(self, data):
                self.data = data

        RAW = object()

        def reader(I, args, kwargs):
            return [(0.0, RAW)]
            yield

        def ipparse(I, args, kwargs):
            return Pkg(Pkg(blob))
            yield

        stubs = {dpkt.pcapng.Reader: reader, dpkt.ip.IP: ipparse, dpkt.ethernet.Ethernet: ipparse}
        I = Interp(ctx, stubs=stubs)
        g = run_sync(I.call(Pm.tpm_pkgs_from_pcap_file, (object(),), {}))
        try:
            out = run_sync(I.iterate_all(g))
        except PyExc as e:
            ctx.record("no-internal-error", False, "safety", e.site or "", repr(e.exc))
            return ("raise", e)
        site = "pcapng/marshal.py:tpm_pkgs_from_pcap_file"
        if n < 10:
            ctx.record("runt-or-empty-payload-is-skipped", out == [], site=site, detail=f"{len(out)} payloads")
            return ("return", out)
        size = bs[2] * 16777216 + bs[3] * 65536 + bs[4] * 256 + bs[5]
        ok = len(out) == 1 and isinstance(out[0], (S.SBytes, bytes))
        ctx.record("payload-is-passed-on", ok, site=site)
        if ok:
            items = out[0].items if isinstance(out[0], S.SBytes) else list(out[0])
            k = len(items)
            ctx.oblige("payload-trimmed-to-its-own-size-field", z3.If(size >= n, k == n, size == k), site=site, detail=f"{k} of {n} bytes kept")
            ctx.record("payload-bytes-unchanged", all((a.eq(b) if z3.is_expr(a) else a == b) for a, b in zip(items, bs)), site=site)
        return ("return", out)

    res = explore(run)
    u.add_paths(res, f"C15/PCAP/payload-{n}-bytes")
    return u


def unit_pcap_bounded():
    """bounded stand-in (never counted as proved): concrete packets through the real tpm_pkgs_from_pcap_file (dpkt replaced by a
    pass-through): payload lengths 0..24 x size fields around the length and at the ends of the 32-bit range, several packets
    in one file; it decides when the size field is read in a way the symbolic unit cannot follow (struct, memoryview, ...)"""
    import types as _t

    Pm = mod("tpmstream.io.pcapng.marshal")
    u = UnitResult("XPCAP")
    u.functions = ["tpmstream.io.pcapng.marshal:tpm_pkgs_from_pcap_file"]

    class Pkg:
        def __init__(self, data):
            self.data = data

    payloads = []
    for n in list(range(0, 25)) + [64]:
        sizes = {0, 1, 9, 10, max(n - 4, 0), max(n - 1, 0), n, n + 1, n + 4, n + 1000, 0x7FFFFFFF, 0x80000000, 0xFFFFFFFC, 0xFFFFFFFF}
        for size in sorted(sizes):
            body = bytes((7 * i + n) % 251 for i in range(n))
            if n >= 6:
                body = body[:2] + size.to_bytes(4, "big") + body[6:]
            payloads.append(body)
    saved = Pm.dpkt
    dis, total = [], 0
    try:
        for group in (1, 3):
            for i in range(0, len(payloads), group):
                chunk = payloads[i:i + group]
                total += 1
                fake = _t.SimpleNamespace(pcapng=_t.SimpleNamespace(Reader=lambda f, chunk=chunk: [(0.0, p) for p in chunk]), ip=_t.SimpleNamespace(IP=lambda raw: Pkg(Pkg(raw))), ethernet=_t.SimpleNamespace(Ethernet=lambda raw: Pkg(raw)))
                Pm.dpkt = fake
                want = []
                for p in chunk:
                    if len(p) < 10:
                        continue
                    size = int.from_bytes(p[2:6], "big")
                    want.append(p if size >= len(p) else p[:size])
                try:
                    got = list(Pm.tpm_pkgs_from_pcap_file(object()))
                except Exception as e:  # noqa
                    got = f"{type(e).__name__}: {e}"
                if got != want:
                    dis.append({"input": {"payloads": [p.hex() for p in chunk]}, "detail": f"payloads {[p.hex() for p in chunk]}: passed on {[g.hex() for g in got] if isinstance(got, list) else got}, expected {[w.hex() for w in want]}", "site": "pcapng/marshal.py:tpm_pkgs_from_pcap_file"})
        # captures that mix link layers: the IP parser refuses an Ethernet frame, the Ethernet parser "accepts" a raw IP packet
        # and returns garbage - so the parsers must be tried in that order for every packet, whatever worked for the last one
        from dpkt.dpkt import UnpackError

        good = [bytes.fromhex("80010000000c000001440000"), bytes.fromhex("80010000000a00000000"), bytes.fromhex("80010000000c0000017b0008"), bytes.fromhex("80010000000e000000000002aabb")]

        def ip_parser(raw):
            if raw[0] == "eth":
                raise UnpackError("not an IP packet")
            return Pkg(Pkg(raw[1]))

        def eth_parser(raw):
            return Pkg(Pkg(Pkg(raw[1]))) if raw[0] == "eth" else Pkg(Pkg(b"\x45\x00garbage" + raw[1][:3]))

        for layout_ in (("ip",) * 4, ("eth",) * 4, ("ip", "ip", "eth", "eth"), ("eth", "eth", "ip", "ip"), ("ip", "eth", "ip", "eth"), ("eth", "ip", "eth", "ip")):
            total += 1
            chunk = [(k, p) for k, p in zip(layout_, good)]
            Pm.dpkt = _t.SimpleNamespace(pcapng=_t.SimpleNamespace(Reader=lambda f, chunk=chunk: [(0.0, c) for c in chunk]), ip=_t.SimpleNamespace(IP=ip_parser), ethernet=_t.SimpleNamespace(Ethernet=eth_parser))
            try:
                got = list(Pm.tpm_pkgs_from_pcap_file(object()))
            except Exception as e:  # noqa
                got = f"{type(e).__name__}: {e}"
            if got != good:
                dis.append({"input": {"link_layers": list(layout_)}, "detail": f"capture with link layers {layout_}: passed on {[g.hex() for g in got] if isinstance(got, list) else got}, expected the four TPM payloads", "site": "pcapng/marshal.py:tpm_pkgs_from_pcap_file"})
    finally:
        Pm.dpkt = saved
    u.bounded.append({"name": "pcap-packets", "bound": "payload lengths 0..24 and 64 x 14 size-field values each, singly and three per file", "evaluations": total, "disagreements": dis[:8], "all_disagreements": len(dis)})
    u.obligations.append({"name": "XPCAP/ran", "kind": "bounded-bookkeeping", "site": "", "status": "proved", "backend": "bookkeeping", "seconds": 0, "model": None, "detail": f"{total} files"})
    return u


def replayer(obd):
    return {"reproduced": True, "detail": obd.get("detail")} if obd.get("backend") == "evaluation" else {"reproduced": None}


def run(tier, seed, only=None):
    rep = Report("C15", tier, seed, "proof", "./check C15 (pyvc: one loop iteration of the real scanners from every reachable state x every input; wrappers and pcap trimming interpreted with stubs; z3)",
                 explanation="step refinement of the two text scanners over their full finite domain, exhaustive two-byte magic table, wrapper pass-through, pcap trimming over symbolic payload bytes")
    rep.trusted_base = ["pyvc's reading of Python", "fold lemma: equality of one step from every reachable state implies equality on every input (meta-level)",
                        "dpkt (pcapng reader, IP/Ethernet parsers) is an assumed contract", "int(pair, 16), bytes.strip evaluated natively on their full finite domain"]
    rep.assumptions = ["swtpm: free text must not contain a proper prefix of the marker directly before the marker (documented layout); truncated markers/headers at end of input are unspecified",
                       "auto-detection is claimed for texts whose first two characters form a hex pair", "pcap payload lengths 0..16 enumerated; the trimming logic does not depend on the length beyond 10"]
    rep.replayer = replayer
    jobs = [(unit_hex, (list(range(i, min(i + 16, 256))),)) for i in range(0, 256, 16)]
    jobs.append((unit_hex_entry, ()))
    jobs.append((unit_hex_entry, ("swtpm",)))
    jobs += [(unit_hex_bounded, (6 if tier == "thorough" else 5, p, 8)) for p in range(8)]
    jobs += [(unit_swtpm, ())]
    jobs += [(unit_auto, (i, min(i + 15, 255))) for i in range(0, 256, 16)]
    jobs += [(unit_wrapper, (w, k)) for w in ("hex", "swtpm") for k in ("opaque", "bytes", "bytearray", "list", "iterator")] + [(unit_wrapper, ("pcapng", "opaque")), (unit_auto_dispatch, ())]
    jobs += [(unit_pcap, (n,)) for n in range(0, 17)] + [(unit_pcap_bounded, ())]
    if only:
        jobs = [j for j in jobs if only in repr(j)]
    units = run_units(jobs)
    for un in units:
        un.obligations = [o for o in un.obligations if "/C11/" not in o["name"]]  # what a front-end returns is C11's business (events only here)
    rep.add(units)
    rep.min_obligations = 100
    rep.extra_coverage = {"exhaustive": True}
    return rep.finish()
