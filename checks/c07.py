"""C07 — warn mode and strict mode agree up to the first problem."""
from checks import decoder_units as D, conformance

SEED = [0]
from checks.decoder_common import run_property


def jobs(tier):
    m = ("strict", "warn")
    # the pump runs below both modes: whatever the processor emits (warnings included) must come out, whichever mode
    return D.g_pump(m) + D.g_leaf(m, deep=2) + D.g_region(m, tier) + D.g_structs(m) + D.g_arrays(m) + D.g_frames(m) + D.g_dispatch(m) + conformance.jobs(tier, SEED[0])


def keep(name, ob):
    # accounting after a recovery is C08's business
    if "ENCFLAG/" in name:
        return False
    if "/warn/" in name and ("/ACC" in name or "/RECOVER/" in name or "/NOABORT/" in name):
        return False  # what happens after the first problem in warn mode is C08's business
    return True


def run(tier, seed, only=None):
    SEED[0] = seed
    from checks.replay_decoder import replayer
    return run_property("C07", tier, seed, jobs(tier), keep,
                        "every contract is written once with a mode parameter: the problem cases come in pairs built from the same error record (strict: raise E / warn: [offending event] Warning(E) ...); each real function is proved against it in both modes, walkers pass the mode through unchanged and catch only their own regions",
                        only, replayer, min_obligations=5000)
