"""C18 — response codes are classified and named by the TPM 2.0 format rules.

Real TPM_RC.__init__/__format__/__str__/attributes (and are_bits_set/unset) are interpreted over a symbolic
32-bit value; every path's result must equal the spec function written from the property statement."""
from __future__ import annotations

import z3

from pyvc import sym as S
from pyvc.explore import explore, check_against_spec, ConcreteEnv
from pyvc.harness import Report, UnitResult
from pyvc.interp import Interp, run_sync, PyExc
from contracts.u08_rc import rc_text_spec, rc_rows_spec
from checks.common import layout, sym_equal, subst_of, concretize

FUNCS = ["tpmstream.spec.common.tpm_rc:TPM_RC.__format__", "tpmstream.spec.common.tpm_rc:TPM_RC.__str__",
         "tpmstream.spec.common.tpm_rc:TPM_RC.attributes", "tpmstream.spec.common.tpm_rc:TPM_RC.are_bits_set",
         "tpmstream.spec.common.tpm_rc:TPM_RC.are_bits_unset", "tpmstream.spec.common.values:tpm_bitfield.<locals>.decorator.<locals>.__init__"]
INTERNAL_ERRORS = (AssertionError, TypeError, KeyError, IndexError, RuntimeError, AttributeError, NameError, ValueError, ZeroDivisionError)


def _mk(ctx):
    from tpmstream.spec.common.tpm_rc import TPM_RC

    v = ctx.fresh_int("v", 0, 2**32 - 1)
    I = Interp(ctx)
    obj = run_sync(I.call(TPM_RC, (S.SInt(v),), {}))
    return I, v, obj


def unit_text(how, variant=None):
    """how: 'format' | 'str'"""
    L = layout()["rc"]
    u = UnitResult(f"C18/TEXT/{how}" + (f"/canary:{variant}" if variant else ""))
    u.functions = FUNCS

    def run(ctx):
        I, v, obj = _mk(ctx)
        try:
            s = run_sync(I.call(format if how == "format" else str, (obj, "") if how == "format" else (obj,), {}))
        except PyExc as e:
            ctx.record(f"no-internal-error", False, "safety", e.site or "", detail=repr(e.exc))
            return ("raise", e)
        ctx.record("no-internal-error", True, "safety")

        def goal(expected):
            if expected is None:
                return True
            return sym_equal(s, expected)

        check_against_spec(ctx, "text-follows-format-rules", lambda env: rc_text_spec(env, v, L, variant), goal, site="tpm_rc.py:TPM_RC.__format__")
        return ("return", s)

    res = explore(run)
    u.add_paths(res, f"C18/TEXT/{how}")
    if res:
        r = res[len(res) // 2]
        u.samples.append({"path_decisions": r.decisions, "result": repr(r.value)[:200], "obligations": [o.name for o in r.ctx.obligations]})
    return u


def unit_rows():
    L = layout()["rc"]
    u = UnitResult("C18/ROWS")
    u.functions = FUNCS

    def run(ctx):
        I, v, obj = _mk(ctx)
        try:
            rows = run_sync(I.call(I.getattr_(obj, "attributes"), (), {}))
        except PyExc as e:
            ctx.record("no-internal-error", False, "safety", e.site or "", detail=repr(e.exc))
            return ("raise", e)
        ctx.record("no-internal-error", True, "safety")
        got = [(r._value, r._name, r._details) for r in rows]
        masks = [m for m, _, _ in got]
        part = (not got) or (all(isinstance(m, int) for m in masks) and sum(masks) == 0xFFFFFFFF and all(masks[i] & masks[j] == 0 for i in range(len(masks)) for j in range(i)))

        def goal(expected):
            if expected is None:
                return True  # TPM 1.2-style code: outside the property's quantifier
            return sym_equal(got, expected)

        def goal_part(expected):
            return True if expected is None else part

        check_against_spec(ctx, "rows-partition-the-word", lambda env: rc_rows_spec(env, v, L), goal_part, site="tpm_rc.py:TPM_RC.attributes")
        check_against_spec(ctx, "rows-carry-the-classification", lambda env: rc_rows_spec(env, v, L), goal, site="tpm_rc.py:TPM_RC.attributes")
        return ("return", got)

    res = explore(run)
    u.add_paths(res, "C18/ROWS")
    if res:
        r = res[-1]
        u.samples.append({"path_decisions": r.decisions, "result": repr(r.value)[:300]})
    return u


def unit_tables():
    import sys, os
    from pyvc.harness import ROOT
    sys.path.insert(0, os.path.join(ROOT, "spec"))
    import dump_layout, json
    u = UnitResult("C18/TABLES")
    now = json.loads(json.dumps(dump_layout.dump()["rc"], sort_keys=True))
    pinned = layout()["rc"]
    for k in sorted(set(now) | set(pinned)):
        a, b = pinned.get(k), now.get(k)
        if isinstance(a, dict):
            for kk in sorted(set(a) | set(b or {})):
                ok = (b or {}).get(kk) == a.get(kk)
                u.obligations.append({"name": f"C18/TABLES/{k}/{kk}", "kind": "table", "site": f"tpm_rc.py:{k}", "status": "proved" if ok else "refuted",
                                      "backend": "evaluation", "seconds": 0, "model": None, "detail": f"pinned {a.get(kk)} now {(b or {}).get(kk)}"})
        else:
            u.obligations.append({"name": f"C18/TABLES/{k}", "kind": "table", "site": f"tpm_rc.py:{k}", "status": "proved" if a == b else "refuted",
                                  "backend": "evaluation", "seconds": 0, "model": None, "detail": f"pinned {a} now {b}"})
    return u


def unit_canary(variant):
    u0 = unit_text("format", variant)
    u = UnitResult(f"C18/canary/{variant}")
    refuted = any(o["status"] == "refuted" for o in u0.obligations)
    u.canaries.append({"name": f"C18 text spec variant {variant}", "refuted": refuted})
    return u


def unit_bounded(lo, hi):
    """bounded stand-in (never counted as proved): the real text form and bit rows of every response code whose low 12 bits
    lie in [lo, hi), with the upper 20 bits 0, all ones and one mixed pattern, against the spec evaluated concretely; it
    decides when the symbolic comparison cannot (texts of a different shape, order of table look-ups)"""
    from tpmstream.spec.common.tpm_rc import TPM_RC

    u = UnitResult(f"XC18/{lo:#x}-{hi:#x}")
    u.functions = FUNCS if "FUNCS" in globals() else ["tpmstream.spec.common.tpm_rc:TPM_RC"]
    L = layout()["rc"]
    vt = z3.Int("v")
    dis, n = [], 0
    for low in range(lo, hi):
        for high in (0, 0xFFFFF000, 0x5A5A5000):
            v = high | low
            n += 1
            env = ConcreteEnv([(vt, z3.IntVal(v))])
            sub = [(vt, z3.IntVal(v))]
            try:
                exp_rows = rc_rows_spec(env, vt, L)
                exp_text = rc_text_spec(env, vt, L)
                if exp_text is None:
                    continue  # outside the property's quantifier (TPM 1.2 style codes)
                exp_text = concretize(exp_text, sub)
                # rows first: formatting must not be needed to make them right
                rows = [(r._value, r._name, r._details) for r in TPM_RC(v).attributes()]
                if exp_rows is not None:
                    want = [(a, b, concretize(c, sub)) for a, b, c in exp_rows]
                    masks = [a for a, _, _ in rows]
                    if want and (sum(masks) != 0xFFFFFFFF or any(masks[i] & masks[j] for i in range(len(masks)) for j in range(i))):
                        dis.append({"input": {"value": hex(v)}, "detail": f"bit rows of {v:#010x} do not partition the word: masks {[hex(m) for m in masks]}", "site": "tpm_rc.py:attributes"})
                    elif sorted(rows, key=lambda r: r[0]) != sorted(want, key=lambda r: r[0]):
                        dis.append({"input": {"value": hex(v)}, "detail": f"bit rows of {v:#010x}: {sorted(rows)[:3]} expected {sorted(want)[:3]}", "site": "tpm_rc.py:attributes"})
                for how, f in (("str", str), ("format", lambda x: format(x, ""))):
                    act = f(TPM_RC(v))
                    if act != exp_text:
                        dis.append({"input": {"value": hex(v)}, "detail": f"{how}(TPM_RC({v:#010x})) = {act!r} expected {exp_text!r}", "site": "tpm_rc.py:__format__"})
            except Exception as e:  # noqa
                dis.append({"input": {"value": hex(v)}, "detail": f"TPM_RC({v:#010x}): {type(e).__name__}: {e}", "site": "tpm_rc.py"})
    u.bounded.append({"name": f"response-codes/{lo:#x}-{hi:#x}", "bound": "every value of the low 12 bits in the range x 3 patterns of the upper 20 bits; rows are taken before the text", "evaluations": n, "disagreements": dis[:8], "all_disagreements": len(dis)})
    u.obligations.append({"name": f"{u.name}/ran", "kind": "bounded-bookkeeping", "site": "", "status": "proved", "backend": "bookkeeping", "seconds": 0, "model": None, "detail": f"{n} codes"})
    return u


def replayer(obd):
    """run the real code natively on the solver's value and compare with the spec evaluated concretely"""
    from tpmstream.spec.common.tpm_rc import TPM_RC

    m = obd.get("model") or {}
    vs = [v for k, v in m.items() if k.startswith("v!")]
    if not vs:
        return {"reproduced": None}
    v = vs[0]
    L = layout()["rc"]
    vt = z3.Int("v")
    env = ConcreteEnv([(vt, z3.IntVal(v))])
    out = {"input": {"value": hex(v)}}
    try:
        if "/ROWS" in obd["name"]:
            exp = rc_rows_spec(env, vt, L)
            exp = None if exp is None else [(a, b, concretize(c, [(vt, z3.IntVal(v))])) for a, b, c in exp]
            act = [(r._value, r._name, r._details) for r in TPM_RC(v).attributes()]
            if "partition" in obd["name"]:
                masks = [a for a, _, _ in act]
                bad = exp is not None and bool(act) and not (sum(masks) == 0xFFFFFFFF and all(masks[i] & masks[j] == 0 for i in range(len(masks)) for j in range(i)))
                out.update(reproduced=bad, actual=repr(act))
                return out
        else:
            exp = concretize(rc_text_spec(env, vt, L), [(vt, z3.IntVal(v))])
            act = str(TPM_RC(v)) if "/str" in obd["name"] else format(TPM_RC(v), "")
    except Exception as e:
        out.update(reproduced=True, actual=f"raises {e!r}")
        return out
    out.update(expected=repr(exp), actual=repr(act), reproduced=(exp is not None and exp != act))
    return out


def run(tier, seed, only=None):
    from pyvc.harness import run_units

    rep = Report("C18", tier, seed, "proof", "./check C18 (pyvc: symbolic execution of TPM_RC.__format__/__str__/attributes over all 2^32 values; z3, cvc5 on unknowns)",
                 explanation="every path of the real formatter over a symbolic 32-bit value equals the spec function written from the TPM 2.0 response-code layout")
    rep.trusted_base = ["pyvc's reading of Python (DESIGN §2.8)", "z3 4.x/5.x, cvc5", "x & mask encoded as sum over mask runs of (x div 2^lo mod 2^len)*2^lo (exact for every integer)",
                        "name tables compared with the pinned layout (spec/layout.json: rc)"]
    rep.assumptions = ["scope = codes with bit 7 or bit 8 set, or zero (the property's quantifier); TPM 1.2-style codes get only the no-internal-error obligation",
                       "defaultdict.__missing__ modelled as returning default_factory() without inserting"]
    rep.replayer = replayer
    jobs = [(unit_text, ("format",)), (unit_text, ("str",)), (unit_rows, ()), (unit_tables, ())]
    for v in ("swap-warn-error", "fmt1-seven-bits", "param-three-bits"):
        jobs.append((unit_canary, (v,)))
    jobs += [(unit_bounded, (lo, lo + 0x100)) for lo in range(0, 0x1000, 0x100)]
    if only:
        jobs = [j for j in jobs if only in repr(j)]
    rep.add(run_units(jobs))
    rep.min_obligations = 300
    return rep.finish()
