"""C06 — decoding arbitrary bytes terminates with a documented outcome (no internal error on any strict path)."""
from checks import decoder_units as D
from checks.decoder_common import run_property


SEED = [0]


def jobs(tier):
    m = ("strict",)
    # bounded stand-in (never counted): generated encodings, structured faults and byte-level mutants through Binary.marshal -
    # any outcome other than the reference semantics' documented one (an internal error in particular) is reported
    return D.g_crosscheck(tier, SEED[0]) + D.g_dispatch(m) + D.g_structs(m) + D.g_encrypt_any(m) + D.g_arrays(m) + D.g_frames(m) + D.g_leaf(m, deep=2) + D.g_region(m, tier) + D.g_typed(("INT", "VALID")) + D.g_pump(m)


def keep(name, ob):
    return ob.get("kind") in ("safety", "loop") or "/outcome/" in name or name.endswith("no-internal-error") or "ENCFLAG/" in name


def run(tier, seed, only=None):
    SEED[0] = seed
    from checks.replay_decoder import replayer
    return run_property("C06", tier, seed, jobs(tier), keep,
                        "safety obligations on every strict-mode path of every instantiation: no assert, KeyError, IndexError, NameError, TypeError, AttributeError, StopIteration can escape; loops over symbolic bounds have a decreasing variant; what escapes a walker is one of its contract's raising cases",
                        only, replayer, min_obligations=3000)
