"""C11 — events and Python objects convert into each other without loss.

proof part:  OBJ[f,T] (the decoder's by-product object is T(**results): obligations of the walker units) and O2E[T]: the real
             obj_to_events on an object of every concrete type whose fields are opaque sub-objects (or absent) yields parent,
             placeholders, list parents and sub-segments exactly as the decode trace of T.
bounded part: events -> object (nested-dict reconstruction) on generated inputs, against the decoder's object."""
from __future__ import annotations

import dataclasses
import itertools

from pyvc.explore import explore
from pyvc.harness import UnitResult
from pyvc.interp import Interp, IGen, PyExc, run_sync
from checks import decoder_units as D, walkers as W
from checks.decoder_common import run_property
from checks.common import layout, mod

SEED = [0]
INVISIBLE = ("handles", "authSize", "authorizationArea", "parameterSize", "parameters")


def expected_o2e(T, ent_fields, obj_fields, path, is_union):
    """events the decode of T emits at this level, given which fields are present: list of ('event', path, typeref|class) | ('seg', sub-object, path)"""
    out = [("event", path, T)]
    for f in ent_fields:
        v = obj_fields.get(f["name"])
        p = W.sub(path, f["name"])
        if v is None:
            if is_union or f["name"] in INVISIBLE:
                continue
            out.append(("event", p, f["type"]))  # empty-field marker (empty size-prefixed structure, payload-less union arm)
            continue
        if f["type"].startswith("list["):
            out.append(("event", p, f["type"]))
        out.append(("seg", v, p))
    return out


def unit_o2e(kind, key):
    """kind: struct | tpm2b | union | area | frame"""
    O = mod("tpmstream.common.object")
    L0 = layout()
    reg, areas = W.registry()
    if kind == "area":
        _, table, ccn = key.split(":")
        T = areas[(table, ccn)]
        fields = L0["commands"][ccn][table]["fields"]
    elif kind == "frame":
        T = reg[key]
        fields = L0["frames"][key]["fields"]
    elif kind == "union":
        T = reg[key]
        fields = L0["unions"][key]["members"]
    else:
        T = reg[key]
        fields = L0[{"struct": "structs", "tpm2b": "tpm2b"}[kind]][key]["fields"]
    u = UnitResult(f"C11/O2E/{key}")
    u.functions = ["tpmstream.common.object:obj_to_events"]
    path = W.base_path()
    names = [f["name"] for f in fields]
    # presence patterns: all present; all absent; each single field absent; (unions: exactly one member present)
    pats = []
    if kind == "union":
        pats = [tuple(n == m for n in names) for m in names]
    else:
        pats.append(tuple(True for _ in names))
        pats.append(tuple(False for _ in names))
        for i in range(len(names)):
            pats.append(tuple(j != i for j in range(len(names))))
        if kind == "frame":
            pats += [tuple(n not in ("authSize", "authorizationArea") for n in names), tuple(n in ("tag", "responseSize", "responseCode") for n in names)]
    pats = list(dict.fromkeys(pats))
    # present-but-empty lists must stay present (an empty session area is not an absent one)
    list_fields = [n for n, f in zip(names, fields) if f["type"].startswith("list[")]
    empties = [("empty-list", lf) for lf in list_fields] if kind != "union" else []

    class Sub:
        def __init__(self, name):
            self.name = name

        def __repr__(self):
            return f"<sub {self.name}>"

    # messages with real header values: what is absent stays absent whatever tag and response code say (a failed response that
    # carries the sessions tag is header-only all the same; a sessions tag with an empty session area keeps the empty list)
    concrete = []
    if kind == "frame":
        from tpmstream.spec.structures.constants import TPM_ST
        from tpmstream.spec.common.tpm_rc import TPM_RC

        hdr = ("tag", "commandSize", "commandCode", "responseSize", "responseCode")
        for tag in (TPM_ST.SESSIONS, TPM_ST.NO_SESSIONS):
            for rc in ((TPM_RC(0x101), TPM_RC(0)) if key == "Response" else (None,)):
                for body in ("header-only", "no-sessions", "all"):
                    pres = tuple(n in hdr if body == "header-only" else (n not in ("authSize", "parameterSize", "authorizationArea") if body == "no-sessions" else True) for n in names)
                    over = {"tag": tag}
                    if rc is not None:
                        over["responseCode"] = rc
                    concrete.append(("concrete", pres, over))

    for pat in pats + empties + concrete:
        def run(ctx, pat=pat):
            if pat and pat[0] == "empty-list":
                subs = {n: Sub(n) for n in names}
                subs[pat[1]] = []
            elif pat and pat[0] == "concrete":
                subs = {n: (Sub(n) if present else None) for n, present in zip(names, pat[1])}
                subs.update(pat[2])
            else:
                subs = {n: (Sub(n) if present else None) for n, present in zip(names, pat)}
            obj = T(**subs)
            calls = []
            depth = [0]
            real = O.obj_to_events

            def stub(I, args, kwargs):
                a = dict(zip(("obj", "path"), args))
                a.update(kwargs)
                if a.get("obj") is obj and depth[0] == 0:
                    depth[0] += 1
                    return (yield from I.call_repo_function(real, args, kwargs))
                # contract of the recursive call: the sub-object's own segment at the given path

                def gen():
                    calls.append((a.get("obj"), a.get("path")))
                    yield ("seg", a.get("obj"), a.get("path"))

                return IGen(gen(), "sub-segment")

            I = Interp(ctx, stubs={real: stub})
            try:
                g = run_sync(I.call(real, (obj,), {"path": path}))
                ys = run_sync(I.iterate_all(g))
            except PyExc as e:
                ctx.record("no-internal-error", False, "safety", e.site or "", repr(e.exc)[:200])
                return ("raise", e)
            exp = expected_o2e(T, fields, subs, path, kind == "union")
            probs = []
            if len(ys) != len(exp):
                probs.append(f"{len(ys)} items, expected {len(exp)}")
            for i, (a, e) in enumerate(zip(ys, exp)):
                if e[0] == "event":
                    ok = type(a).__name__ == "MarshalEvent" and a.path == e[1] and W.type_matches(a.type, e[2]) and a.value is ...
                else:
                    ok = isinstance(a, tuple) and a[0] == "seg" and a[1] is e[1] and a[2] == e[2]
                if not ok:
                    probs.append(f"item {i}: {W.safe_repr(a)} expected {e[0]} at {e[-1] if e[0]=='seg' else e[1]}")
            ctx.record("events-of-the-object-equal-the-decode-trace-at-this-level", not probs, site="object.py:obj_to_events", detail="; ".join(probs[:3]) or f"presence {pat}")
            ctx.record("FRAME/no-write-to-shared-state", not ctx.frame_writes, "frame", detail="; ".join(ctx.frame_writes[:3]))
            return ("return", ys)

        res = explore(run)
        u.add_paths(res, f"C11/O2E/{key}")
    return u


def unit_o2e_leaf_and_list():
    """leaf: one event (path, type(value), value); list: the elements' segments at path[name[i]] in order"""
    O = mod("tpmstream.common.object")
    from tpmstream.spec.structures.base_types import UINT16
    from tpmstream.spec.structures.constants import TPM_CC

    u = UnitResult("C11/O2E/leaf-and-list")
    u.functions = ["tpmstream.common.object:obj_to_events"]
    path = W.base_path()

    def ob(name, ok, detail=""):
        u.obligations.append({"name": f"C11/O2E/{name}", "kind": "post", "site": "object.py:obj_to_events", "status": "proved" if ok else "refuted", "backend": "evaluation", "seconds": 0, "model": None, "detail": detail})

    for v in (UINT16(7), TPM_CC(0x17B), TPM_CC(0x9999)):
        evs = list(O.obj_to_events(v, path=path))
        ob(f"leaf/{type(v).__name__}", len(evs) == 1 and evs[0].path == path and evs[0].type is type(v) and evs[0].value is v, repr(evs)[:200])
    real = O.obj_to_events
    for n in (0, 1, 3):
        from pyvc.explore import Ctx
        ctx = Ctx()
        elems = [object() for _ in range(n)]
        lst = list(elems)
        depth = [0]

        def stub(I, args, kwargs):
            a = dict(zip(("obj", "path"), args))
            a.update(kwargs)
            if a.get("obj") is lst and depth[0] == 0:
                depth[0] += 1
                return (yield from I.call_repo_function(real, args, kwargs))

            def gen():
                yield ("seg", a.get("obj"), a.get("path"))

            return IGen(gen(), "sub")

        I = Interp(ctx, stubs={real: stub})
        ys = run_sync(I.iterate_all(run_sync(I.call(real, (lst,), {"path": path}))))
        ok = len(ys) == n
        for i, y in enumerate(ys):
            p = y[2]
            ok = ok and y[1] is elems[i] and p[:-1] == path[:-1] and p[-1].name == path[-1].name and p[-1].index == i
        ob(f"list/{n}-elements", ok, W.safe_repr(ys)[:200])
    return u


def unit_e2o_bounded(types, seed, n):
    """bounded: the object rebuilt from the events equals the decoder's object; both turn back into the decoded event list;
    re-encoding the object's events gives the input"""
    import os, random, sys
    from pyvc.harness import ROOT
    sys.path.insert(0, os.path.join(ROOT, "spec"))
    import crosscheck as X
    from tpmstream.io.binary import Binary
    from tpmstream.common.canonical import Generator
    from tpmstream.common.object import events_to_obj, obj_to_events

    u = UnitResult(f"XE2O/{types[0]}..{types[-1]}")
    rng = random.Random(seed)
    total, dis = 0, []

    def key(e):
        return (str(e.path), X.typeref(e.type) if not isinstance(e.type, str) else e.type, None if e.value is ... else (None if e.value is None else int(e.value)), type(e.value).__name__)

    for t in types:
        for label, data, cc, enc in X.candidates(t, rng, n, with_faults=False):
            total += 1
            T = X.resolve_type(t)
            try:
                gen = Generator(Binary.marshal(tpm_type=T, buffer=data, command_code=X.cc_member(cc), parameter_encryption=True if enc else None, abort_on_error=True))
                evs = list(gen)
                obj = gen.value
                k0 = [key(e) for e in evs]
                if t != "CommandResponseStream":
                    rebuilt = events_to_obj(evs, command_code=X.cc_member(cc))
                    if rebuilt != obj:
                        dis.append({"input": {"tpm_type": t, "hex": data.hex(), "command_code": cc, "how_generated": label}, "detail": "object rebuilt from the events differs from the decoder's object", "site": "events_to_obj"})
                    for which, o in (("decoder object", obj), ("rebuilt object", rebuilt)):
                        k1 = [key(e) for e in obj_to_events(o)]
                        if k1 != k0:
                            i = next((i for i, (a, b) in enumerate(zip(k0, k1)) if a != b), min(len(k0), len(k1)))
                            dis.append({"input": {"tpm_type": t, "hex": data.hex(), "command_code": cc, "how_generated": label}, "detail": f"events of the {which} differ from the decoded events at index {i}: {k1[i] if i < len(k1) else None} vs {k0[i] if i < len(k0) else None}", "site": "obj_to_events"})
                        if b"".join(Binary.unmarshal(obj_to_events(o))) != data:
                            dis.append({"input": {"tpm_type": t, "hex": data.hex(), "command_code": cc}, "detail": f"re-encoding the {which} does not give the input", "site": "obj_to_events"})
            except Exception as ex:
                dis.append({"input": {"tpm_type": t, "hex": data.hex(), "command_code": cc, "how_generated": label}, "detail": f"raised {type(ex).__name__}: {ex}"[:200], "site": "object.py"})
    u.bounded.append({"name": f"events-object-roundtrip/{types[0]}..{types[-1]}", "bound": f"{n} generated well-formed encodings per type (lists <= 3, buffers <= 6 bytes), seed {seed}", "evaluations": total, "disagreements": dis[:8], "all_disagreements": len(dis)})
    u.obligations.append({"name": f"{u.name}/ran", "kind": "bounded-bookkeeping", "site": "", "status": "proved", "backend": "bookkeeping", "seconds": 0, "model": None, "detail": f"{total} inputs"})
    return u


def jobs(tier):
    L0 = layout()
    js = [(unit_o2e_leaf_and_list, ())]
    js += [(unit_o2e, ("struct", n)) for n in sorted(L0["structs"])]
    js += [(unit_o2e, ("tpm2b", n)) for n in sorted(L0["tpm2b"])]
    js += [(unit_o2e, ("union", n)) for n in sorted(L0["unions"])]
    js += [(unit_o2e, ("area", k)) for k in D.all_area_keys()]
    js += [(unit_o2e, ("frame", "Command")), (unit_o2e, ("frame", "Response"))]
    # events -> object: trie insertion by the step rule, conversion one level per concrete type
    js += [(unit_e2d_steps, ()), (unit_to_obj_dispatch, ()), (unit_d2o_partial, ()), (unit_canonical, ())]
    # the facade decodes through the front-ends (Auto by default): they must hand the decoder's object on
    from checks import c15
    js += [(c15.unit_wrapper, (w, "opaque")) for w in ("hex", "swtpm", "pcapng")] + [(c15.unit_auto_dispatch, ())]
    # decoder and events->object both synthesize the encrypted parameter class: they agree only through the memo (C12/MEMO)
    from checks import c12
    js += [(c12.unit_memo, ())]
    js += [(unit_d2o, ("struct", n)) for n in sorted(L0["structs"])]
    js += [(unit_d2o, ("tpm2b", n)) for n in sorted(L0["tpm2b"])]
    js += [(unit_d2o, ("union", n)) for n in sorted(L0["unions"])]
    js += [(unit_d2o, ("area", k)) for k in D.all_area_keys()]
    js += [(unit_d2o, ("frame", "Command")), (unit_d2o, ("frame", "Response"))]
    # OBJ: the decoder's object is T(**results) — outcome/object obligations of the walker units
    m = ("strict",)
    js += D.g_structs(m) + D.g_arrays(m) + D.g_frames(m)
    types = [t for t in sorted(L0["structs"]) + sorted(L0["tpm2b"]) if t != "TPM2B_ENCRYPTED_PARAM"] + ["Command", "Response"]
    n = 12 if tier == "thorough" else 2
    js += [(unit_e2o_bounded, (ch, SEED[0], n)) for ch in D.chunks(types, 12)]
    return js


def keep(name, ob):
    if name.startswith("C15/WRAP/"):
        return "/C11/" in name or name.endswith("no-internal-error")
    return name.startswith("C11/") or name.startswith("C12/MEMO") or "/outcome/" in name or ob.get("kind") in ("frame", "bounded-bookkeeping") or name.endswith("no-internal-error")


def run(tier, seed, only=None):
    SEED[0] = seed

    def replayer(obd):
        return {"reproduced": True, "detail": obd.get("detail")} if obd.get("backend") in ("evaluation", "structural") and obd["name"].startswith("C11/") else {"reproduced": None}

    return run_property("C11", tier, seed, jobs(tier), keep,
                        "OBJ (every walker returns T(**callee results)), O2E[T] (real obj_to_events per concrete type = decode trace at that level), E2D (trie insertion of _events_to_dict by the step rule on both loops), D2O[T] (real _dict_to_obj per concrete type converts every entry with its declared type), _to_obj/_list_to_obj dispatch; bounded cross-check: events -> object -> events -> bytes on generated inputs",
                        only, replayer, min_obligations=2000, level="proof",
                        extra_assumptions=["composition of the one-level obligations (E2D steps, D2O[T], O2E[T], OBJ) into the whole-object statement is a meta-level induction over the acyclic layout; the end-to-end run on generated inputs is a bounded cross-check, never counted as proved"])


# ---------------------------------------------------------------------------------------------
# events -> object by contracts: E2D (trie insertion, step rule on both loops) and D2O[T] (one level per concrete type)


def ref_insert(node, name, index, value):
    """reference semantics of one path step (setdefault: an existing entry wins); returns the entry reached"""
    if index is None:
        if name not in node:
            node[name] = value
        return node[name]
    lst = node.setdefault(name, [])
    if index == len(lst):
        lst.append(None)
    if lst[index] is None:
        lst[index] = value
    return lst[index]


def unit_e2d_steps():
    """_events_to_dict: one iteration of the inner loop (one path node) from an arbitrary trie node, for every shape of step:
    plain / indexed node x entry absent / present (x position in the list: next free slot / existing slot) x inner / leaf node
    x leaf kinds (structure -> {}, list parent -> [], primitive -> the value); and the outer loop: every event starts at the root"""
    from pyvc.explore import Ctx
    from pyvc.interp import PathEnd
    from pyvc.loops import OneStepLoop
    import copy

    O = mod("tpmstream.common.object")
    A = __import__("checks.c14", fromlist=["alphabet"]).alphabet()
    ME, PN, Path = A["MarshalEvent"], A["PathNode"], A["Path"]
    u = UnitResult("C11/E2D")
    u.functions = ["tpmstream.common.object:_events_to_dict"]

    def ob(name, ok, detail=""):
        u.obligations.append({"name": f"C11/E2D/{name}", "kind": "step", "site": "object.py:_events_to_dict", "status": "proved" if ok else "refuted", "backend": "evaluation", "seconds": 0, "model": None, "detail": detail})

    V = A["UINT16"](9)
    leafkinds = {"structure": (A["Command"], ..., dict), "list-parent": (list[A["BYTE"]], ..., list), "primitive": (A["UINT16"], V, None)}
    for inner in (True, False):
        for indexed in (False, True):
            for present in (False, True):
                for lk, (T, val, cont) in leafkinds.items():
                    if inner and lk != "structure":
                        continue
                    # the event: a path of three nodes; the step under test is node number `i`
                    i = 1 if inner else 2
                    idx = 1 if indexed else None
                    nodes = [PN(""), PN("a"), PN("b")]
                    nodes[i] = PN(nodes[i].name, index=idx) if indexed else nodes[i]
                    ev = ME(Path(nodes), T, val)
                    existing = {"old": 1} if not indexed or True else None
                    node = {"other": 5}
                    if indexed:
                        node[nodes[i].name] = [{"first": 0}] + ([existing] if present else [])
                    elif present:
                        node[nodes[i].name] = existing
                    before = copy.deepcopy(node)
                    ctx = Ctx()
                    I = Interp(ctx, loop_specs={("_events_to_dict", 1): OneStepLoop({"event": ev, "node": node, "i": i, "next_node": nodes[i]}, kind="for")}, force=[O._events_to_dict])
                    g = I.call(O._events_to_dict, ([ev],), {})
                    try:
                        run_sync(g)
                        out = "returned"
                    except PathEnd:
                        out = "next"
                    except PyExc as e:
                        out = f"raise {e.exc!r}"
                    loc = ctx.ghost.get("step", {}).get("locals", {})
                    if inner:
                        newval = {}
                    else:
                        newval = [] if lk == "list-parent" else ({} if lk == "structure" else V)
                    exp_node = copy.deepcopy(before)
                    reached = ref_insert(exp_node, nodes[i].name, idx, newval)
                    got = loc.get("node")
                    ok = out == "next" and node == exp_node and (got == reached) and (type(got) is type(reached))
                    ob(f"step/{'inner' if inner else 'leaf'}/{'indexed' if indexed else 'plain'}/{'present' if present else 'absent'}/{lk}", ok, f"{out}: trie {node} expected {exp_node}; reached {got!r} expected {reached!r}")
    # outer loop: the walk of every event starts at the root and the root type is the first event's type
    evs = [ME(Path([PN("")]), A["Command"], ...), ME(Path([PN(""), PN("x")]), A["UINT16"], V), ME(Path([PN(""), PN("l")]), list[A["BYTE"]], ...), ME(Path([PN(""), PN("l", index=0)]), A["BYTE"], A["BYTE"](1)), ME(Path([PN(""), PN("l", index=1)]), A["BYTE"], A["BYTE"](2))]
    root, rt = O._events_to_dict(iter(evs))
    ob("run/small-stream", rt is A["Command"] and root == {"": {"x": V, "l": [A["BYTE"](1), A["BYTE"](2)]}}, repr(root)[:200])
    return u


def unit_d2o(kind, key):
    """_dict_to_obj / _to_obj / _list_to_obj at one level for a concrete type: every entry is converted with exactly the
    declared field type (Any resolved by the command code; encrypted first parameter detected) and the object is T(**converted)"""
    from pyvc.explore import Ctx

    O = mod("tpmstream.common.object")
    L0 = layout()
    reg, areas = W.registry()
    u = UnitResult(f"C11/D2O/{key}")
    u.functions = ["tpmstream.common.object:_dict_to_obj", "tpmstream.common.object:_to_obj", "tpmstream.common.object:_list_to_obj"]

    def ob(name, ok, detail=""):
        u.obligations.append({"name": f"C11/D2O/{key}/{name}", "kind": "post", "site": "object.py:_dict_to_obj", "status": "proved" if ok else "refuted", "backend": "evaluation", "seconds": 0, "model": None, "detail": detail})

    variants = [("plain", None)]
    cc_val = None
    if kind == "area":
        _, table, ccn = key.split(":")
        T = areas[(table, ccn)]
        ent = L0["commands"][ccn][table]
        if f"{table}:{ccn}" in L0["encrypted"]:
            variants.append(("encrypted", L0["encrypted"][f"{table}:{ccn}"]))
    elif kind == "frame":
        T = reg[key]
        ent = L0["frames"][key]
    elif kind == "union":
        T = reg[key]
        ent = {"fields": L0["unions"][key]["members"]}
    else:
        T = reg[key]
        ent = L0[{"struct": "structs", "tpm2b": "tpm2b"}[kind]][key]
    for vname, enc_ent in variants:
        e = enc_ent or ent
        fields = e["fields"]
        # value shapes: opaque leaves, and the empty containers that a part without fields / a list without elements
        # rebuilds to (round 13: an empty parameter area of a command was turned into "absent")
        for ccn2, shape in [(c, s) for c in (["GetRandom", "Create", "FirmwareRead"] if kind == "frame" else [None])
                            for s in ("", "empty-dict", "empty-list")]:
            if shape:
                vname = vname.split("+")[0] + "+" + shape
            else:
                vname = vname.split("+")[0]
            ctx = Ctx()
            calls = []
            real_to_obj = O._to_obj

            def to_obj_stub(I, args, kwargs):
                calls.append((args[0], args[1]))
                return ("CONVERTED", args[1] if not isinstance(args[1], (dict, list)) else id(args[1]))
                yield

            d = {}
            vals = {}
            for i, f in enumerate(fields):
                if enc_ent is not None and i == 0:
                    v = {"size": object(), "encryptedParam": object()}  # what the events of an encrypted first parameter rebuild to
                elif f["type"] == "None":
                    continue
                else:
                    v = {"": object, "empty-dict": dict, "empty-list": list}[shape]()
                vals[f["name"]] = v
                d[f["name"]] = v
            cc = W.cc_member(ccn2) if ccn2 else None
            if kind == "frame" and key == "Command":
                d["commandCode"] = cc
                vals["commandCode"] = cc
            if kind == "union":
                # a union dict holds exactly one member
                name0 = next(iter(d), None)
                d = {name0: d[name0]} if name0 else {}
            I = Interp(ctx, stubs={real_to_obj: to_obj_stub}, force=[O._dict_to_obj])
            try:
                obj = run_sync(I.call(O._dict_to_obj, (T, d), {"command_code": cc if key == "Response" else None}))
            except PyExc as ex:
                ob(f"{vname}{'/' + ccn2 if ccn2 else ''}/no-internal-error", False, repr(ex.exc)[:200])
                continue
            exp_types = {}
            for f in fields:
                if f["name"] not in d:
                    continue
                if f["type"] == "Any":
                    table = {("Command", "handles"): "cmd_handles", ("Command", "parameters"): "cmd_params", ("Response", "handles"): "rsp_handles", ("Response", "parameters"): "rsp_params"}[(key, f["name"])]
                    exp_types[f["name"]] = areas[(table, ccn2)]
                else:
                    exp_types[f["name"]] = f["type"]
            got = {}
            for (t, v) in calls:
                nm = next((n for n, vv in d.items() if vv is v), None)
                got[nm] = t
            probs = []
            for nm, want in exp_types.items():
                if nm not in got:
                    probs.append(f"{nm}: not converted")
                elif not W.type_matches(got[nm], want):
                    probs.append(f"{nm}: converted as {W.typeref(got[nm])}, declared {want if isinstance(want, str) else want.__name__}")
            ob(f"{vname}{'/' + ccn2 if ccn2 else ''}/every-entry-converted-with-its-declared-type", not probs and len(calls) == len(d), "; ".join(probs[:3]))
            shown = T
            if enc_ent is not None:
                shown = T.encrypted()
            okobj = type(obj) is shown and all(getattr(obj, nm, None) == ("CONVERTED", v if not isinstance(v, (dict, list)) else id(v)) for nm, v in d.items())
            ob(f"{vname}{'/' + ccn2 if ccn2 else ''}/object-is-the-type-filled-with-the-converted-entries", okobj, f"{type(obj).__name__}")
            if key == "Response":
                ob(f"{vname}/{ccn2}/response-remembers-its-command-code", getattr(obj, "_command_code", None) is cc)
    return u


def unit_d2o_partial():
    """messages with absent optional parts: the members that are present are converted, nothing else is looked up
    (a failed response needs no command code; a command without sessions has no session members)"""
    from pyvc.explore import Ctx
    from tpmstream.spec.commands import Command, Response

    O = mod("tpmstream.common.object")
    u = UnitResult("C11/D2O/partial")
    u.functions = ["tpmstream.common.object:_dict_to_obj"]

    def ob(name, ok, detail=""):
        u.obligations.append({"name": f"C11/D2O/partial/{name}", "kind": "post", "site": "object.py:_dict_to_obj", "status": "proved" if ok else "refuted", "backend": "evaluation", "seconds": 0, "model": None, "detail": detail})

    def run(T, d, cc):
        ctx = Ctx()
        calls = []

        def to_obj_stub(I, args, kwargs):
            calls.append(args[0])
            return ("CONVERTED", args[1])
            yield

        I = Interp(ctx, stubs={O._to_obj: to_obj_stub}, force=[O._dict_to_obj])
        try:
            return run_sync(I.call(O._dict_to_obj, (T, d), {"command_code": cc})), calls, None
        except PyExc as e:
            return None, calls, e.exc

    hdr = {"tag": object(), "responseSize": object(), "responseCode": object()}
    for ccname, cc in (("no-command-code", None), ("GetRandom", W.cc_member("GetRandom"))):
        obj, calls, exc = run(Response, dict(hdr), cc)
        ok = exc is None and obj is not None and all(getattr(obj, k) == ("CONVERTED", v) for k, v in hdr.items()) and obj.handles is None and obj.parameters is None and len(calls) == 3
        ob(f"failed-response-header-only/{ccname}", ok, f"raised {exc!r}" if exc else f"{len(calls)} conversions")
    cmd = {"tag": object(), "commandSize": object(), "commandCode": W.cc_member("GetRandom"), "handles": object(), "parameters": object()}
    obj, calls, exc = run(Command, dict(cmd), None)
    ok = exc is None and obj is not None and obj.authSize is None and obj.authorizationArea is None and len(calls) == 5
    ob("command-without-sessions", ok, f"raised {exc!r}" if exc else f"{len(calls)} conversions")
    return u


def unit_canonical():
    """Canonical / Generator facade (common/canonical.py), evaluated with a recording front-end: for a bytes input the events
    are exactly what the front-end's marshal() yields for (tpm_type, the bytes, root_path=path, command_code, abort_on_error) and
    the object is what it returns; for an object input the object is the input and the events are obj_to_events(input, path);
    lazy / eager construction and repeated access give the same lists without decoding twice; anything else is refused.
    (observation points of C11 are .events / .object; `iter(Canonical(...))` raises TypeError on the pinned tree because __iter__
    returns a list - outside every listed property, not claimed and not reported)"""
    C = mod("tpmstream.common.canonical")
    from tpmstream.io.binary import Binary
    from tpmstream.spec.commands import Command
    from tpmstream.spec.structures.structures import TPMS_PCR_SELECTION

    u = UnitResult("C11/CANONICAL")
    u.functions = ["tpmstream.common.canonical:Canonical.__init__", "tpmstream.common.canonical:Canonical.events", "tpmstream.common.canonical:Canonical.object", "tpmstream.common.canonical:Generator.__iter__"]

    def ob(name, ok, detail=""):
        u.obligations.append({"name": f"C11/CANONICAL/{name}", "kind": "post", "site": "canonical.py", "status": "proved" if ok else "refuted", "backend": "evaluation", "seconds": 0, "model": None, "detail": str(detail)[:300]})

    # Generator: yields in order, .value = the generator's return value
    def g3():
        a = yield "e1"
        b = yield "e2"
        return ("ret", a, b)
    G = C.Generator(g3())
    ys = list(G)
    ob("generator/yields-in-order-and-keeps-the-return-value", ys == ["e1", "e2"] and G.value == ("ret", None, None), f"{ys} {getattr(G, 'value', None)!r}")

    E1, E2, OBJ = object(), object(), object()
    for lazy in (True, False):
        for abort in (True, False):
            for cc in (None, object()):
                for path in (None, object()):
                    calls = []

                    class FrontEnd:
                        @staticmethod
                        def marshal(**kw):
                            calls.append(kw)

                            def gen():
                                yield E1
                                yield E2
                                return OBJ
                            return gen()

                    T = object()
                    data = b"\x80\x01"
                    tag = f"bytes/lazy={lazy}/abort={abort}/cc={'given' if cc else 'none'}/path={'given' if path else 'none'}"
                    try:
                        c = C.Canonical(data, format_in=FrontEnd, tpm_type=T, path=path, command_code=cc, lazy=lazy, abort_on_error=abort)
                        n_at_construction = len(calls)
                        if cc is None:
                            ev1 = list(c.events)
                            o1 = c.object
                        else:
                            # the other order of access: the object first
                            o1 = c.object
                            ev1 = list(c.events)
                        ev2 = list(c.events)
                        o2 = c.object
                    except Exception as e:  # noqa
                        ob(tag + "/no-error", False, repr(e))
                        continue
                    want_kw = {"tpm_type": T, "buffer": data, "root_path": path, "command_code": cc, "abort_on_error": abort}
                    ok = len(calls) == 1 and set(calls[0]) == set(want_kw) and all(calls[0][k] is v for k, v in want_kw.items())
                    ob(tag + "/decodes-once-with-the-callers-arguments", ok, f"{len(calls)} call(s): {[sorted(k) for k in calls]}")
                    ob(tag + "/events-are-what-the-decoder-yields", ev1 == [E1, E2] and ev2 == [E1, E2], f"{len(ev1)} {len(ev2)}")
                    ob(tag + "/object-is-what-the-decoder-returns", o1 is OBJ and o2 is OBJ, repr(o1)[:60])
    # object -> events
    real = Command if False else None
    objs = [TPMS_PCR_SELECTION(hash=None, sizeofSelect=None, pcrSelect=None)]
    seen = []
    saved = C.obj_to_events
    try:
        def fake_o2e(obj, path=None):
            seen.append((obj, path))
            yield E1
            yield E2
        C.obj_to_events = fake_o2e
        for path in (None, object()):
            for lazy in (True, False):
                seen.clear()
                o = objs[0]
                try:
                    c = C.Canonical(o, path=path, lazy=lazy)
                    ev = list(c.events)
                    ev_again = list(c.events)
                    ok = c.object is o and ev == [E1, E2] and ev_again == [E1, E2] and len(seen) == 1 and seen[0][0] is o and seen[0][1] is path
                    ob(f"object/lazy={lazy}/path={'given' if path else 'none'}/object-kept-and-events-from-obj_to_events-with-the-path", ok, f"{len(seen)} call(s), {len(ev)} events")
                except Exception as e:  # noqa
                    ob(f"object/lazy={lazy}/path={'given' if path else 'none'}/no-error", False, repr(e))
    finally:
        C.obj_to_events = saved
    for bad in ("8001", 17, None, [0x80, 0x01], bytearray(b"\x80")):
        try:
            C.Canonical(bad, format_in=None)
            ob(f"other/{type(bad).__name__}-input-is-refused", False, "accepted")
        except ValueError:
            ob(f"other/{type(bad).__name__}-input-is-refused", True)
        except Exception as e:  # noqa
            ob(f"other/{type(bad).__name__}-input-is-refused", False, repr(e))
    return u


def unit_to_obj_dispatch():
    """_to_obj and _list_to_obj: dict -> _dict_to_obj (an empty-field marker of a type with fields -> None), list -> element-wise with the element type, leaf unchanged"""
    from pyvc.explore import Ctx
    from tpmstream.spec.structures.base_types import UINT16, BYTE
    from tpmstream.spec.structures.structures import TPMS_PCR_SELECTION
    from tpmstream.spec.commands.commands_handles import TPMS_COMMAND_HANDLES_GET_RANDOM

    O = mod("tpmstream.common.object")
    u = UnitResult("C11/D2O/dispatch")
    u.functions = ["tpmstream.common.object:_to_obj", "tpmstream.common.object:_list_to_obj", "tpmstream.common.object:events_to_obj"]

    def ob(name, ok, detail=""):
        u.obligations.append({"name": f"C11/D2O/dispatch/{name}", "kind": "post", "site": "object.py:_to_obj", "status": "proved" if ok else "refuted", "backend": "evaluation", "seconds": 0, "model": None, "detail": detail})

    def run(fn, args, kwargs, stubs, force):
        ctx = Ctx()
        I = Interp(ctx, stubs=stubs, force=force)
        return run_sync(I.call(fn, args, kwargs))

    calls = []
    def d2o_stub(I, args, kwargs):
        calls.append((args, dict(kwargs)))
        return "OBJ"
        yield
    CC = object()
    d = {"hash": 1}
    r = run(O._to_obj, (TPMS_PCR_SELECTION, d), {"command_code": CC}, {O._dict_to_obj: d2o_stub}, [O._to_obj])
    ob("dict-goes-to-the-structure-converter-with-type-and-command-code", r == "OBJ" and len(calls) == 1 and calls[0][0][0] is TPMS_PCR_SELECTION and calls[0][0][1] is d and calls[0][1].get("command_code") is CC, str(calls)[:200])
    calls.clear()
    r = run(O._to_obj, (TPMS_PCR_SELECTION, {}), {}, {O._dict_to_obj: d2o_stub}, [O._to_obj])
    ob("empty-field-marker-of-a-type-with-fields-is-absent", r is None and not calls, repr(r))
    r = run(O._to_obj, (TPMS_COMMAND_HANDLES_GET_RANDOM, {}), {}, {O._dict_to_obj: d2o_stub}, [O._to_obj])
    ob("a-type-without-fields-is-still-an-object", r == "OBJ", repr(r))
    v = UINT16(5)
    ob("leaf-value-is-kept", run(O._to_obj, (UINT16, v), {}, {}, [O._to_obj]) is v)
    elems = []
    def to_obj_stub(I, args, kwargs):
        elems.append(args)
        return ("E", args[1])
        yield
    lst = [object(), object(), object()]
    r = run(O._list_to_obj, (list[BYTE], lst), {}, {O._to_obj: to_obj_stub}, [O._list_to_obj])
    ob("list-is-converted-element-wise-with-the-element-type-in-order", r == [("E", x) for x in lst] and all(a[0] is BYTE for a in elems), repr(r)[:200])
    return u
