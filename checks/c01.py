"""C01 — well-formed encodings decode to exactly the field-by-field event sequence (strict mode)."""
from checks import decoder_units as D, conformance
from checks.decoder_common import run_property

SEED = [0]


def jobs(tier):
    m = ("strict",)
    return D.g_dispatch(m) + D.g_structs(m) + D.g_arrays(m) + D.g_frames(m) + D.g_leaf(m, deep=1) + D.g_typed(("INT", "VALID")) + D.g_crosscheck(tier, SEED[0]) + conformance.jobs(tier, SEED[0]) + [(D.unit_canaries, ())]


def keep(name, ob):
    return "ENCFLAG/" not in name  # (flag/session mismatch is outside this property's inputs; C06/C08 own it)


def run(tier, seed, only=None):
    SEED[0] = seed
    from checks.replay_decoder import replayer
    return run_property("C01", tier, seed, jobs(tier), keep,
                        "every walker, instantiated on every concrete layout entry (102 primitives, 98 structs, 468 areas + encrypted variants, 33 size-prefixed types, 20 union/selector pairs, 17 list types, 117 command codes x command/response), emits exactly the one-level unfolding of the reference semantics over the pinned layout and returns T(**results); bytes, values, counts and sizes are symbolic",
                        only, replayer, min_obligations=5000)
