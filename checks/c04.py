"""C04 — strict mode rejects exactly the inputs containing an out-of-range value."""
from checks import decoder_units as D
from checks.decoder_common import run_property

SEED = [0]
from checks.common import layout


def jobs(tier):
    import checks.walkers as W
    m = ("strict",)
    js = D.g_leaf(m, deep=1) + D.g_typed(("VALID",))
    js += [(W.unit_command, (None, "strict", True)), (W.unit_response, (None, "strict", False))]
    js += [(W.unit_tpmu, (un, sn, "strict")) for un, sn in W.union_parents()]
    return js + D.g_crosscheck(tier, SEED[0], only_frames=True) + D.g_dispatch(("strict",))


def keep(name, ob):
    return "ENCFLAG/" not in name  # (flag/session mismatch is outside this property's inputs; C06/C08 own it)


def run(tier, seed, only=None):
    SEED[0] = seed
    from checks.replay_decoder import replayer
    return run_property("C04", tier, seed, jobs(tier), keep,
                        "VALID[T] for all 102 classes (is_valid iff v in the pinned set, every integer of the width); leaf contract in strict mode: raise iff not valid, with (path, type, value, allowed set) and no event for the field; command-code dispatch failure builds the same kind of error; union selectors validated upstream always select a member",
                        only, replayer, min_obligations=3000)
