"""C08 — warn mode reports problems as warnings and keeps decoding."""
from checks import decoder_units as D
from checks.decoder_common import run_property


def jobs(tier):
    m = ("warn",)
    return D.g_leaf(m, deep=2) + D.g_region(m, tier) + D.g_structs(m) + D.g_encrypt_any(m) + D.g_arrays(m) + D.g_frames(m) + D.g_dispatch(m) + D.g_pump(m)


def keep(name, ob):
    return True


def run(tier, seed, only=None):
    from checks.replay_decoder import replayer
    return run_property("C08", tier, seed, jobs(tier), keep,
                        "warn-mode cases of every contract: NOABORT (only Exceeded of a region live at entry, or the two fatal value errors, may leave a walker), RECOVER/ACC (after a reported overrun or padded shortfall every enclosing live region still satisfies the accounting invariant, so decoding resumes at the declared end)",
                        only, replayer, min_obligations=3000)
