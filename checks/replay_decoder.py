"""Replay of decoder-core obligations (placeholder until the witness generator / reference semantics are wired in):
table and frame obligations are observations on the real code; for the others no concrete input is built yet."""


def replayer(obd):
    if obd.get("kind") in ("table", "frame") and obd.get("backend") == "evaluation":
        return {"reproduced": True, "detail": obd.get("detail")}
    return {"reproduced": None, "note": "no concrete input built for this obligation"}
