"""Replay of decoder-core obligations against the real code through the public API.

A refuted obligation names a unit (walker, type, mode).  The replay generates concrete inputs relevant to that unit with the
witness generator (well-formed encodings + single faults), runs the real Binary.marshal and compares with the reference
semantics (spec/refsem.py).  A disagreement is the concrete failing input.  If none is found among the candidates the
violation is still reported (the obligation passed on the unchanged tree and fails now), marked no-failing-input-found."""
from __future__ import annotations

import os
import random
import sys

from pyvc.harness import ROOT

sys.path.insert(0, os.path.join(ROOT, "spec"))


def _types_for(name):
    import crosscheck as X

    L = X.layout()
    parts = name.split("/")
    mode = "warn" if "/warn/" in name or name.endswith("/warn") else "strict"
    modes = [mode]
    out = []  # (tname, ccn, enc)
    head = parts[0]
    if head == "LEAF" and len(parts) > 1:
        t = parts[1]
        out.append((t, None, False))
        # and something that contains it
        for sn, ent in L["structs"].items():
            if any(f["type"] == t for f in ent["fields"]):
                out.append((sn, None, False))
                break
        out += [("Command", None, False)]
    elif head == "WALK" and len(parts) > 2:
        kind, key = parts[1], parts[2]
        if kind == "tpms":
            if key.startswith("area:"):
                _, table, ccn = key.split(":")
                enc = "encrypted" in parts
                out.append(("Command" if table.startswith("cmd") else "Response", ccn, enc))
            else:
                out.append((key, None, False))
        elif kind == "tpm2b":
            out.append((key, None, False))
            out.append(("Command", None, False))
        elif kind == "tpmu":
            for sn, ent in L["structs"].items():
                if any(f["type"] == key for f in ent["fields"]):
                    out.append((sn, None, False))
            for ccn, c in L["commands"].items():
                for tb in ("cmd_params", "rsp_params"):
                    if any(f["type"] == key for f in c[tb]["fields"]):
                        out.append(("Command" if tb == "cmd_params" else "Response", ccn, False))
        elif kind in ("array", "bytesized"):
            e = key
            for sect in ("structs", "tpm2b"):
                for sn, ent in L[sect].items():
                    if any(f["type"] == f"list[{e}]" for f in ent["fields"]) and sn != "TPM2B_ENCRYPTED_PARAM":
                        out.append((sn, None, False))
            out = out[:6] + [("Command", None, False), ("Response", None, False)]
        elif kind == "command":
            out.append(("Command", key if key in L["commands"] else None, False))
        elif kind == "response":
            out.append(("Response", key if key in L["commands"] else None, "encrypted" in parts))
        elif kind == "stream":
            out.append(("CommandResponseStream", None, False))
        elif kind == "dispatch":
            out += [("Command", None, False), ("Response", None, False), ("TPMT_PUBLIC", None, False), ("TPM2B_PUBLIC", None, False), ("TPML_PCR_SELECTION", None, False), ("UINT16", None, False)]
    elif head == "PUMP":
        out += [("Command", None, False), ("CommandResponseStream", None, False), ("TPM2B_DIGEST", None, False), ("UINT32", None, False)]
        modes = ["strict", "warn"] if mode == "strict" else ["warn"]
    elif head == "REGION":
        out += [("Command", None, False), ("Response", None, False), ("TPM2B_PUBLIC", None, False), ("TPM2B_SENSITIVE_CREATE", None, False), ("TPM2B_DIGEST", None, False)]
    if not out:
        out = [("Command", None, False), ("Response", None, False)]
    return out, modes


def replayer(obd, n=10, seed=1):
    if obd.get("kind") in ("table", "frame") and obd.get("backend") == "evaluation":
        return {"reproduced": True, "detail": obd.get("detail")}
    name = obd["name"]
    if name.startswith("C16/"):
        from checks import c16

        return c16.replayer(obd)
    import crosscheck as X

    rng = random.Random(seed)
    try:
        targets, modes = _types_for(name)
    except Exception as e:
        return {"reproduced": None, "note": f"no replay target: {e!r}"}
    tried = 0
    for tname, ccn, enc in targets:
        try:
            cands = X.candidates(tname, rng, n, True, ccn=ccn, enc=enc)
        except Exception as e:
            continue
        for label, data, cc, e in cands:
            for mode in modes:
                tried += 1
                try:
                    r = X.compare(tname, data, cc, e, mode)
                except Exception as ex:
                    r = {"what": "comparison crashed", "detail": repr(ex)[:200]}
                if r:
                    return {"reproduced": True, "input": {"tpm_type": tname, "hex": data.hex(), "command_code": cc, "parameter_encryption": e, "mode": mode, "how_generated": label},
                            "expected_by_reference_semantics": r.get("ref_error"), "actual": r.get("real_error") or r.get("real"), "difference": f"{r['what']}: {r['detail']}"[:600],
                            "candidates_tried": tried}
    return {"reproduced": None, "note": f"{tried} generated inputs around the unit agree with the reference semantics", "candidates_tried": tried}
