"""shared run() scaffolding for the decoder-core properties"""
from __future__ import annotations

from pyvc.harness import Report, run_units
from checks import decoder_units as D

TRUSTED = [
    "pyvc's reading of Python (DESIGN §2.8), conformance-checked not proved",
    "z3 / cvc5",
    "modular reasoning: callee contracts (contracts/walker_stubs.py) are assumed at call sites and proved for each walker separately; structural induction over the acyclic type graph (C20) is a meta-level argument",
    "lemmas C16/INT and C16/VALID (typed construction preserves the integer; is_valid iff in the pinned set) used as the contract of tpm_type(value)/is_valid in the leaf",
    "expected traces are generated from spec/layout.json (C20 proves the tables equal it)",
    "Path / PathNode operations run natively (they only rearrange tuples)",
]


def run_property(pid, tier, seed, jobs, keep, text, only=None, replayer=None, min_obligations=100, level="proof", extra_assumptions=()):
    rep = Report(pid, tier, seed, level, f"./check {pid} (pyvc: real decoder functions interpreted per concrete layout entry against their contracts; z3, cvc5 on unknowns)", explanation=text)
    rep.trusted_base = TRUSTED
    rep.assumptions = list(extra_assumptions)
    rep.replayer = replayer
    if only:
        jobs = [j for j in jobs if only in repr(j)]
    units = run_units(D.sort_jobs(jobs))

    def keep2(name, ob):
        # a response whose sessions disagree with the encryption flag handed in is outside the inputs of every property
        # except C06/C08 (which demand a documented outcome there: open finding F6)
        if "ENCFLAG/" in name and pid not in ("C06", "C08"):
            return False
        return keep(name, ob)

    D.filter_units(units, keep2)
    rep.add(units)
    rep.min_obligations = min_obligations
    return rep.finish()
