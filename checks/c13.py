"""C13 — a constraint error accounts for every input byte."""
from checks import decoder_units as D
from checks.decoder_common import run_property

SEED = [0]


def jobs(tier):
    from checks import c15
    m = ("strict",)
    front = [(c15.unit_auto_dispatch, ())]
    return D.g_pump(("strict", "warn")) + D.g_region(m, tier) + D.g_leaf(m, deep=2, types=["UINT8", "UINT16", "UINT32", "UINT64", "INT8", "INT16", "INT32", "INT64", "TPM_ST", "TPM_CC", "TPMI_YES_NO"]) + D.g_crosscheck(tier, SEED[0], only_frames=True) + D.g_dispatch(("strict",)) + front


def keep(name, ob):
    return True


def run(tier, seed, only=None):
    SEED[0] = seed
    from checks.replay_decoder import replayer
    return run_property("C13", tier, seed, jobs(tier), keep,
                        "pump Fail cases: on a byte send bytes_remaining is the untouched source, on an event pull it is the outstanding look-ahead byte (iff there is one) followed by the unread rest; region contract: an overrun consumes exactly the rest of the region before raising; the leaf consumes nothing for the offending field after the look-ahead check; together input = emitted fields + consumed offending bytes + bytes_remaining",
                        only, replayer, min_obligations=2000)
