"""C13 — a constraint error accounts for every input byte."""
from checks import decoder_units as D
from checks.decoder_common import run_property

SEED = [0]


def jobs(tier):
    from checks import c15
    m = ("strict",)
    front = [(c15.unit_auto_dispatch, ()), (unit_error_rendering, ())]
    return D.g_pump(("strict", "warn")) + D.g_region(m, tier) + D.g_leaf(m, deep=2, types=["UINT8", "UINT16", "UINT32", "UINT64", "INT8", "INT16", "INT32", "INT64", "TPM_ST", "TPM_CC", "TPMI_YES_NO"]) + D.g_crosscheck(tier, SEED[0], only_frames=True) + D.g_dispatch(("strict",)) + front


def unit_error_rendering():
    """the remaining-bytes attribute of a constraint error is observed by the caller *after* the error travelled up - possibly
    after it was logged or printed.  For every error class: rendering it (str, repr, format, traceback text) does not touch the
    attribute - a live iterator stays unread, bytes stay the same bytes - and leaves every other attribute as it was"""
    import traceback
    import tpmstream.common.error as E
    from pyvc.harness import UnitResult
    from tpmstream.common.constraints import SizeConstraint, ValueConstraint
    from tpmstream.common.path import Path, PathNode
    from tpmstream.spec.common.values import ValidValues
    from tpmstream.spec.structures.base_types import UINT16

    u = UnitResult("C13/ERRORS")
    u.functions = ["tpmstream.common.error:*"]
    path = Path((PathNode(""), PathNode("f")))

    class Src:
        def __init__(self, data):
            self.data, self.n = data, 0

        def __iter__(self):
            return self

        def __next__(self):
            if self.n >= len(self.data):
                raise StopIteration
            self.n += 1
            return self.data[self.n - 1]

    def mk():
        sc = SizeConstraint()
        sc.constraint_path, sc.size_max, sc.size_already = path, 4, 2
        vc = ValueConstraint(constraint_path=path, tpm_type=UINT16, valid_values=ValidValues(range(0, 4)))
        return {"value": E.ValueConstraintViolatedError(vc, UINT16(0x42)), "exceeded": E.SizeConstraintExceededError(sc, violator_path=path, exceeded_by=1),
                "anticipated": E.AnticipatedSizeConstraintExceededError(sc, violator_path=path, violator_value=9, exceeded_by=1), "subceeded": E.SizeConstraintSubceededError(sc)}

    for name in mk():
        for kind in ("iterator", "bytes"):
            e = mk()[name]
            rest = bytes([1, 2, 3, 0xFF])
            src = Src(rest) if kind == "iterator" else rest
            e.set_bytes_remaining(src)
            before = {k: v for k, v in vars(e).items() if k != "bytes_remaining"}
            bad = []
            for how, f in (("str", str), ("repr", repr), ("format", lambda x: f"{x}"), ("traceback", lambda x: "".join(traceback.format_exception_only(type(x), x)))):
                try:
                    f(e)
                except Exception as ex:  # noqa
                    bad.append(f"{how}() raised {type(ex).__name__}: {ex}")
                if kind == "iterator" and src.n != 0:
                    bad.append(f"{how}() read {src.n} byte(s) from the live input")
                    break
            after = {k: v for k, v in vars(e).items() if k != "bytes_remaining"}
            if set(before) != set(after) or any(before[k] is not after[k] for k in before):
                bad.append("rendering changed the error's attributes")
            try:
                got = bytes(e.bytes_remaining)
            except Exception as ex:  # noqa
                got = f"{type(ex).__name__}: {ex}"
            if got != rest:
                bad.append(f"bytes(error.bytes_remaining) after rendering = {got!r}, the unread input is {rest!r}")
            u.obligations.append({"name": f"C13/ERRORS/{name}/{kind}/rendering-leaves-the-remaining-bytes-and-the-details-alone", "kind": "post", "site": "common/error.py", "status": "refuted" if bad else "proved",
                                  "backend": "evaluation", "seconds": 0, "model": None, "detail": "; ".join(bad[:3])})
    return u


def keep(name, ob):
    return "/C11/" not in name  # what a front-end returns is C11's business


def run(tier, seed, only=None):
    SEED[0] = seed
    from checks.replay_decoder import replayer
    return run_property("C13", tier, seed, jobs(tier), keep,
                        "pump Fail cases: on a byte send bytes_remaining is the untouched source, on an event pull it is the outstanding look-ahead byte (iff there is one) followed by the unread rest; region contract: an overrun consumes exactly the rest of the region before raising; the leaf consumes nothing for the offending field after the look-ahead check; together input = emitted fields + consumed offending bytes + bytes_remaining",
                        only, replayer, min_obligations=2000)
