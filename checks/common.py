"""shared helpers for the checks"""
from __future__ import annotations

import json
import os

import z3

from pyvc import sym as S
from pyvc.harness import ROOT
from pyvc.interp import Unsupported
from pyvc.models import str_equal, and_

_LAYOUT = None


def layout():
    global _LAYOUT
    if _LAYOUT is None:
        _LAYOUT = json.load(open(os.path.join(ROOT, "spec", "layout.json")))
    return _LAYOUT


def sym_equal(a, b):
    """structural equality of two engine values: bool or z3 Bool"""
    if a is b:
        return True
    if isinstance(a, (S.SStr, str)) and isinstance(b, (S.SStr, str)):
        r = str_equal(a, b)
        return r.t if isinstance(r, S.SBool) else r
    if isinstance(a, bool) and isinstance(b, bool):
        return a == b
    if isinstance(a, (S.SBool, bool)) and isinstance(b, (S.SBool, bool)):
        r = z3.simplify(S.bterm(a) == S.bterm(b))
        return True if z3.is_true(r) else (False if z3.is_false(r) else r)
    if isinstance(a, (S.SInt, S.SBool, int)) and isinstance(b, (S.SInt, S.SBool, int)) and not isinstance(a, str):
        r = z3.simplify(S.term(a) == S.term(b))
        if z3.is_true(r):
            return True
        if z3.is_false(r):
            return False
        return r
    if isinstance(a, (S.SBytes, bytes)) and isinstance(b, (S.SBytes, bytes)):
        ia = a.items if isinstance(a, S.SBytes) else list(a)
        ib = b.items if isinstance(b, S.SBytes) else list(b)
        if len(ia) != len(ib):
            return False
        return conj([sym_equal(x if not z3.is_expr(x) else S.SInt(x), y if not z3.is_expr(y) else S.SInt(y)) for x, y in zip(ia, ib)])
    if isinstance(a, (list, tuple)) and isinstance(b, (list, tuple)):
        if len(a) != len(b):
            return False
        return conj([sym_equal(x, y) for x, y in zip(a, b)])
    if isinstance(a, S.Sym) or isinstance(b, S.Sym):
        return False
    return a == b


def conj(items):
    out = []
    for r in items:
        if r is False:
            return False
        if r is True:
            continue
        out.append(r)
    if not out:
        return True
    return z3.And(out)


def subst_of(model_dict, names=None):
    """[(const, value)] for ConcreteEnv from a model dict {name: int|bool}"""
    out = []
    for k, v in (model_dict or {}).items():
        if isinstance(v, bool):
            out.append((z3.Bool(k), z3.BoolVal(v)))
        elif isinstance(v, int):
            out.append((z3.Int(k), z3.IntVal(v)))
    return out


def concretize(v, subst):
    """render an engine value under a concrete assignment"""
    def ev(t):
        r = z3.simplify(z3.substitute(t, *subst)) if subst else z3.simplify(t)
        return r.as_long()
    if isinstance(v, S.SStr):
        out = []
        for p in v.parts:
            if isinstance(p, str):
                out.append(p)
            elif isinstance(p, S.FmtInt):
                out.append(format(ev(p.t), p.spec))
            elif isinstance(p, S.Bits):
                out.append(format(ev(p.t), "b").zfill(p.width))
            elif isinstance(p, S.BitChar):
                out.append(str((ev(p.t) >> p.k) & 1))
            else:
                out.append(repr(p))
        return "".join(out)
    if isinstance(v, S.SInt):
        return ev(v.t)
    if isinstance(v, S.SBytes):
        return bytes(ev(x) if z3.is_expr(x) else x for x in v.items)
    if isinstance(v, (list, tuple)):
        return type(v)(concretize(x, subst) for x in v)
    return v


def mod(name):
    """the module object (not an attribute of the same name in the parent package)"""
    import importlib

    return importlib.import_module(name)
