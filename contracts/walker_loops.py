"""Inductive-invariant rules for the three symbolic loops of the walkers (DESIGN §2.5, §4):
process_array (for index in range(count)), process_byte_sized_array (while already < max),
process_command_response_stream (while True).

Each rule forks into (A) one arbitrary iteration — the real body is executed once from a havoc'd state that satisfies the
invariant, and must re-establish it — and (B) the state after the loop.  Invariant (all three): the accounting invariant
Acc of every live region in the constraint list, and `trace = parent ++ k complete element segments`."""
from __future__ import annotations

import z3

from pyvc import sym as S
from pyvc.interp import PathEnd, Unsupported, PyExc, _Break, _Continue, _Return
from pyvc.loops import pos_add
from pyvc.models import SRange
from contracts.decoder import typed_int
from contracts.walker_stubs import live_regions, relay_finish


def _local(frame, name):
    if name not in frame.locals:
        raise Unsupported(f"loop rule: local '{name}' not found (function was restructured)")
    return frame.locals[name]


def havoc_regions(ctx, lst, label):
    """advance every live region by one fresh amount d >= 0 (bytes consumed by the iterations not executed), keeping Acc"""
    d = ctx.fresh_int(f"d_{label}", 0)
    for c in live_regions(lst):
        c.size_already = S.lift_int(S.term(c.size_already) + d)
        if c.size_max is not None:
            ctx.assume(S.term(c.size_already) <= typed_int(c.size_max))
    pos_add(ctx, d)
    return d


def check_element_call(ctx, I, seg, element_type, parent_path, name, k, lst, strict, label, site):
    """the iteration's trace must be exactly one call process(element_type, parent/name[k], size_constraints=lst, abort_on_error=mode)"""
    calls = [x for x in seg if x[0] == "call" and x[1] == "process"]
    others = [x for x in seg if not (x[0] == "call" and x[1] == "process")]
    ok = len(calls) == 1 and not others
    ctx.record(f"LOOP/{label}/iteration-is-one-element-decode", ok, "loop", site, detail=f"iteration trace {[x[0] + ':' + str(x[1]) if x[0] == 'call' else x[0] for x in seg]}")
    if not calls:
        return None
    rec = calls[0][2]
    a = rec["args"]
    probs = []
    if a["tpm_type"] is not element_type:
        probs.append(f"type {a['tpm_type']!r}")
    p = a["path"]
    if len(p) != len(parent_path) + 1 or p[:-1] != parent_path or p[-1].name != name:
        probs.append(f"path {p!r}")
    if a["size_constraints"] is not lst:
        probs.append("size_constraints not passed on")
    if a["abort_on_error"] is not strict:
        probs.append("abort_on_error not passed on")
    for nm in ("count", "selector", "command_code", "parameter_encryption", "array_size_constraint"):
        if a[nm] is not None:
            probs.append(f"{nm} given")
    ctx.record(f"LOOP/{label}/element-call-arguments", not probs, "loop", site, detail="; ".join(probs))
    idx = p[-1].index if len(p) else None
    if isinstance(idx, (S.SInt, int)) and not isinstance(idx, bool):
        ctx.oblige(f"LOOP/{label}/element-path-index", S.term(idx) == k, "loop", site)
    else:
        ctx.record(f"LOOP/{label}/element-path-index", False, "loop", site, detail=f"index {idx!r}")
    return rec


class ArrayLoop:
    """process_array: `for index in range(count)`"""

    kind = "for"

    def run(self, I, node, frame):
        ctx = I.ctx
        it = yield from I.eval(node.iter, frame)
        site = I.site(node, frame)
        if isinstance(it, range) and len(it) <= 4:
            # small concrete count: plain unrolling
            for k in it:
                yield from I.assign(node.target, k, frame)
                yield from I.exec_block(node.body, frame)
            return
        if isinstance(it, range):
            count = z3.IntVal(len(it))
            if it.start != 0 or it.step != 1:
                raise Unsupported("ArrayLoop: unexpected range")
        elif isinstance(it, SRange) and isinstance(it.lo, int) and it.lo == 0:
            count = S.term(it.hi)
        else:
            raise Unsupported("ArrayLoop: unexpected iterable")
        lst = _local(frame, "size_constraints")
        strict = _local(frame, "abort_on_error")
        path = _local(frame, "path")
        elements = _local(frame, "elements")
        element_type = _local(frame, "element_type")
        which = ctx.fork([z3.BoolVal(True), z3.BoolVal(True)], "loop:array")
        if which == 0:
            k = ctx.fresh_int("k", 0)
            if not ctx.solver.feasible(k < count):
                raise PathEnd("infeasible")
            ctx.assume(k < count)
            havoc_regions(ctx, lst, "array")
            frame.locals["element_size"] = S.SInt(ctx.fresh_int("esz"))
            n_before = len(elements)
            yield from I.assign(node.target, S.SInt(k), frame)
            before = len(ctx.trace)
            yield from I.exec_block(node.body, frame)
            rec = check_element_call(ctx, I, ctx.trace[before:], element_type, path[:-1], path[-1].name, k, lst, strict, "array", site)
            ok = rec is not None and len(elements) == n_before + 1 and elements[-1] is rec.get("result")
            ctx.record("LOOP/array/element-appended", ok, "loop", site)
            relay_finish(ctx, site)
            raise PathEnd("loop-iteration")
        # (B) after the loop: max(count, 0) complete elements
        n = z3.simplify(z3.If(count >= 0, count, z3.IntVal(0)))
        havoc_regions(ctx, lst, "array_done")
        frame.locals["element_size"] = S.SInt(ctx.fresh_int("esz"))
        ctx.trace.append(("array", {"element_type": element_type, "count": n, "list": elements}))
        ctx.ghost.setdefault("abstract_lists", {})[id(elements)] = n


class ByteSizedLoop:
    """process_byte_sized_array: `while region.size_already < region.size_max` with the element decode in a try block"""

    kind = "while"

    def run(self, I, node, frame):
        ctx = I.ctx
        site = I.site(node, frame)
        lst = _local(frame, "size_constraints")
        strict = _local(frame, "abort_on_error")
        path = _local(frame, "path")
        elements = _local(frame, "elements")
        element_type = _local(frame, "element_type")
        region = _local(frame, "array_size_constraint")
        ctx.record("LOOP/bytesized/region-is-armed-and-in-the-list", region is not None and region.size_max is not None and any(region is c for c in live_regions(lst)), "loop", site)
        which = ctx.fork([z3.BoolVal(True), z3.BoolVal(True)], "loop:bytesized")
        k = ctx.fresh_int("k", 0)
        havoc_regions(ctx, lst, "bytesized")
        frame.locals["index"] = S.SInt(k)
        c = yield from I.eval(node.test, frame)
        if which == 0:
            if not I.truth(c):
                raise PathEnd("infeasible")
            n_before = len(elements)
            left0 = typed_int(region.size_max) - S.term(region.size_already)
            before = len(ctx.trace)
            try:
                yield from I.exec_block(node.body, frame)
            except _Continue:
                pass
            except _Break:
                # the body left the loop from this iteration: execution goes on behind the loop (the element was not completed)
                ctx.record("LOOP/bytesized/iteration-decodes-its-element-or-leaves-by-an-exception", False, "loop", site, detail="the loop was left by `break` in the middle of an element")
                relay_finish(ctx, site)
                return
            seg = ctx.trace[before:]
            rec = check_element_call(ctx, I, [x for x in seg if x[0] == "call"], element_type, path[:-1], path[-1].name, k, lst, strict, "bytesized", site)
            ok = rec is not None and len(elements) == n_before + 1 and elements[-1] is rec.get("result")
            ctx.record("LOOP/bytesized/element-appended", ok, "loop", site)
            idx = frame.locals.get("index")
            ctx.oblige("LOOP/bytesized/index-incremented", S.term(idx) == k + 1, "loop", site) if isinstance(idx, (S.SInt, int)) else ctx.record("LOOP/bytesized/index-incremented", False, "loop", site)
            if not region.is_obsolete:
                left1 = typed_int(region.size_max) - S.term(region.size_already)
                ctx.oblige("LOOP/bytesized/variant-decreases", z3.And(left1 < left0, left1 >= 0), "loop", site, detail="termination: the region's remaining size strictly decreases (an element consumes at least one byte)")
            relay_finish(ctx, site)
            raise PathEnd("loop-iteration")
        if I.truth(c):
            raise PathEnd("infeasible")
        ctx.trace.append(("array", {"element_type": element_type, "count": k, "list": elements}))
        ctx.ghost.setdefault("abstract_lists", {})[id(elements)] = k


class StaleValue:
    """what a loop-carried local holds at the head of a later iteration: something an earlier message left behind"""

    def __init__(self, name):
        self.name = name

    def __repr__(self):
        return f"<left over from an earlier message in '{self.name}'>"


class StreamLoop:
    """process_command_response_stream: `while True:` command then response"""

    kind = "while"

    def run(self, I, node, frame):
        ctx = I.ctx
        site = I.site(node, frame)
        c = yield from I.eval(node.test, frame)
        if c is not True:
            raise Unsupported("StreamLoop: loop condition is not the constant True")
        # arbitrary iteration (the loop has no normal exit; the pump ends the stream): a local that was set before the loop and is
        # assigned inside it is loop-carried - in a later iteration it holds whatever an earlier message left there
        import ast as _ast

        assigned = set()
        for n in _ast.walk(_ast.Module(body=node.body, type_ignores=[])):
            if isinstance(n, (_ast.Assign, _ast.AugAssign, _ast.AnnAssign, _ast.NamedExpr)):
                for t in (n.targets if isinstance(n, _ast.Assign) else [n.target]):
                    for nm in _ast.walk(t):
                        if isinstance(nm, _ast.Name):
                            assigned.add(nm.id)
        carried = sorted(a for a in assigned if a in frame.locals)
        for name in carried:
            if ctx.fork([z3.BoolVal(True), z3.BoolVal(True)], f"carried:{name}") == 1:
                frame.locals[name] = StaleValue(name)
        ctx.ghost["stream_iteration_start"] = len(ctx.trace)
        try:
            yield from I.exec_block(node.body, frame)
        except (_Break, _Return) as e:
            ctx.record("LOOP/stream/never-leaves-the-loop", False, "loop", site, detail=f"{type(e).__name__}")
            relay_finish(ctx, site)
            raise PathEnd("loop-iteration")
        ctx.ghost["stream_iteration_done"] = True
        relay_finish(ctx, site)
        raise PathEnd("loop-iteration")
