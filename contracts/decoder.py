"""Contracts for the decoder core (DESIGN §4, Appendix A): regions (U2), leaf (U3), walkers (U4).

Ghost state: ctx.ghost['pos'] = bytes consumed so far (the coroutine driver counts every Need).
Regions are real SizeConstraint instances whose fields hold symbolic integers."""
from __future__ import annotations

import z3

from pyvc import sym as S
from pyvc.interp import IGen, PyExc, PathEnd, Unsupported, run_sync


# ---------------------------------------------------------------------------------------------
# symbolic regions


def mk_region(ctx, name, state, acc=True):
    """a SizeConstraint in one of the states 'armed' | 'unarmed' | 'obsolete' with symbolic counters"""
    from tpmstream.common.constraints import SizeConstraint
    from tpmstream.common.path import Path, PathNode

    r = SizeConstraint.__new__(SizeConstraint)
    a = ctx.fresh_int(f"{name}_already", 0)
    r.size_already = S.SInt(a)
    r.is_obsolete = state == "obsolete"
    if state == "unarmed":
        r.size_max = None
        r.constraint_path = None
        m = None
    else:
        m = ctx.fresh_int(f"{name}_max", 0)
        if acc:
            ctx.assume(a <= m)  # accounting invariant Acc (holds for regions armed when they start counting)
        r.size_max = S.SInt(m)
        r.constraint_path = Path((PathNode(""), PathNode(name)))
    r._ghost = {"name": name, "a0": a, "max": m, "state": state}
    return r


def mk_region_list(regions):
    from tpmstream.common.constraints import SizeConstraintList

    lst = SizeConstraintList()
    list.extend(lst, regions)
    return lst


class TypedStub:
    """contract of tpm_type(value) for a symbolic value (lemma C16/INT): an instance of T whose int() is the value"""

    @staticmethod
    def make(T, t):
        obj = T.__new__(T)
        obj.__dict__["_value"] = t if isinstance(t, (S.SInt, int)) else S.SInt(t)
        obj.__dict__["_name"] = None
        obj.__dict__["_pyvc_typed"] = True
        return obj


def typed_int(x):
    """the integer term carried by a typed value / plain symbolic int"""
    if isinstance(x, (S.SInt, S.SBool, int)):
        return S.term(x)
    v = x.__dict__.get("_value") if hasattr(x, "__dict__") else None
    depth = 0
    while v is not None and not isinstance(v, (S.SInt, int)) and depth < 4:
        v = getattr(v, "_value", None)
        depth += 1
    if v is None:
        raise Unsupported(f"no integer in {x!r}")
    return S.term(v)


def make_typed_ctor_stub(allowed_formula_of):
    """stub for `tpm_type(value)` inside process_primitive: returns the Typed contract object.
    is_valid() on it is answered from the pinned allowed set (lemma C16/VALID)."""

    def stub(T):
        def ctor(I, args, kwargs):
            (v,) = args
            return TypedStub.make(T, v)
            yield

        return ctor

    return stub


def stub_is_valid(P_of):
    """contract of _INT.is_valid on a Typed contract object"""
    from contracts.u05_typed import allowed_formula

    def is_valid(I, args, kwargs):
        (self_,) = args
        if not self_.__dict__.get("_pyvc_typed"):
            raise Unsupported("is_valid on a non-contract object")
        P = P_of(type(self_))
        return S.lift_bool(allowed_formula(P, typed_int(self_)))
        yield

    return is_valid
