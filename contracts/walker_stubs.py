"""Callee contracts used when a walker is verified modularly: `process`, the region methods, etc.

Every stub appends a ('call', name, args, outcome) item to the trace when it is *driven* (at `yield from` time)."""
from __future__ import annotations

import dataclasses
import inspect

import z3

from pyvc import sym as S
from pyvc.interp import IGen, PyExc, Unsupported
from pyvc.loops import pos_add
from contracts.decoder import TypedStub, typed_int
from contracts.u05_typed import allowed_formula, width_range


class Opaque:
    """result object of a callee of non-primitive type T (its content is the callee's business)"""

    def __init__(self, T, tag):
        self.T = T
        self.tag = tag

    def __repr__(self):
        return f"<result#{self.tag} of {getattr(self.T, '__name__', self.T)}>"


def is_list_t(t):
    return getattr(t, "__origin__", None) is list or t is list


PROCESS_PARAMS = ["tpm_type", "path", "selector", "count", "command_code", "parameter_encryption", "array_size_constraint", "size_constraints", "abort_on_error"]
PROCESS_DEFAULTS = {"selector": None, "count": None, "command_code": None, "parameter_encryption": None, "array_size_constraint": None, "size_constraints": None, "abort_on_error": True}


def bind(names, defaults, args, kwargs, fname):
    a = dict(defaults)
    if len(args) > len(names):
        raise PyExc(TypeError(f"{fname}() takes {len(names)} positional arguments but {len(args)} were given"))
    for n, v in zip(names, args):
        a[n] = v
    for k, v in kwargs.items():
        if k not in names:
            raise PyExc(TypeError(f"{fname}() got an unexpected keyword argument '{k}'"))
        a[k] = v
    for n in names:
        if n not in a:
            raise PyExc(TypeError(f"{fname}() missing required argument '{n}'"))
    return a


def live_regions(lst):
    return [c for c in (lst or []) if c.is_obsolete is False]


def foreign_region(ctx, tag):
    from contracts.decoder import mk_region

    return mk_region(ctx, f"inner{tag}", "armed")


def may_be_none(T, a):
    """walkers that own a region return None after recovering from its overrun: TPM2B with a structured body, byte-sized list"""
    import dataclasses

    if is_list_t(T):
        return a.get("array_size_constraint") is not None
    if getattr(T, "__name__", "").startswith("TPM2B") and dataclasses.is_dataclass(T):
        fs = dataclasses.fields(T)
        return len(fs) == 2 and not is_list_t(fs[1].type)
    return False


def error_snapshot(exc):
    """what an error says (its own attributes and those of the constraint it points to), as comparable data: a caller that
    passes the error on - re-raised or wrapped in a warning - must pass it on saying the same thing"""
    def k(v):
        if isinstance(v, (S.SInt, S.SBool)):
            return ("term", str(z3.simplify(S.term(v))))
        if isinstance(v, (bool, int, str, bytes, type(None))):
            return ("value", v)
        return ("object", id(v))

    snap = {kk: k(vv) for kk, vv in vars(exc).items() if not kk.startswith("_")}
    c = getattr(exc, "constraint", None)
    if c is not None and hasattr(c, "__dict__"):
        for kk, vv in vars(c).items():
            if not kk.startswith("_"):
                snap["constraint." + kk] = k(vv)
    return snap


class RelayByte:
    """the byte the driver hands to a callee's request (opaque: the caller has no business looking at it)"""

    def __init__(self, tag):
        self.tag = tag

    def __repr__(self):
        return f"RelayByte({self.tag})"


def relay_items(ctx, a, kinds=None):
    """coroutine protocol between a walker and its callee: whatever the callee yields must reach the walker's own caller in
    order and exactly once, and the reply must reach the callee.  The abstract callee therefore yields one request for a byte,
    one event and (warn mode) one warning before it produces its outcome; the driver records what arrives (explore.
    drive_coroutine) and the replies are checked here."""
    from tpmstream.common.event import MarshalEvent, WarningEvent
    from tpmstream.common.error import ConstraintViolatedError

    R = ctx.ghost.setdefault("relay", {"expected": [], "seen": [], "objs": {}, "bad": []})
    tag = len(R["expected"])
    strict = a.get("abort_on_error")
    if kinds is None:
        kinds = ["need", "event"] + ([] if strict is True else ["warning"])
    for kind in kinds:
        key = (tag, kind)
        R["expected"].append(key)
        if kind == "need":
            R["need"] = key
            got = yield None
            if not (isinstance(got, RelayByte) and got.tag == key):
                R["bad"].append(f"the callee asked for a byte and was sent {got!r}")
        else:
            obj = MarshalEvent(a.get("path"), a.get("tpm_type"), ...) if kind == "event" else WarningEvent(error=ConstraintViolatedError(f"relay {tag}"))
            R["objs"][id(obj)] = (key, obj)
            got = yield obj
            if got is not None:
                R["bad"].append(f"the callee yielded {kind} and was sent {got!r}")


def relay_finish(ctx, site=""):
    """obligations of the relay protocol at the end of a path (also before an invariant rule cuts the path)"""
    R = ctx.ghost.get("relay")
    if not R or R.get("closed") == len(R["expected"]):
        return
    R["closed"] = len(R["expected"])
    ok = R["seen"] == R["expected"]
    ctx.record("RELAY/what-a-callee-yields-reaches-the-caller-in-order-and-exactly-once", ok, "post", site,
               detail="" if ok else f"callee yielded {R['expected'][:8]}, the walker passed on {R['seen'][:8]}")
    ctx.record("RELAY/replies-reach-the-callee", not R["bad"], "post", site, detail="; ".join(R["bad"][:3]))


class ProcessContract:
    """contract of process(T, path, ...) as seen by a caller (DESIGN §2.4, §4 U4)

    cases: normal return | Exceeded(c) for each live armed region c of the list passed in | (strict only) an error raised
    below: Exceeded of a region opened inside the callee, Anticipated, Subceeded, Value | (warn) fatal Value error"""

    def __init__(self, layout_prims, result_hook=None, raising=True, fixed_values=None, min_size=None):
        self.P = layout_prims
        self.result_hook = result_hook
        self.raising = raising
        self.fixed_values = fixed_values or {}  # class -> z3 condition builder on the value term (unit-level case split)
        self.min_size = min_size or (lambda T: 0)

    def __call__(self, I, args, kwargs):
        a = bind(PROCESS_PARAMS, PROCESS_DEFAULTS, args, kwargs, "process")
        contract = self

        def gen():
            yield from relay_items(I.ctx, a)
            return contract.drive(I, a)

        return IGen(gen(), "process-contract")
        yield

    def drive(self, I, a):
        import tpmstream.common.error as E
        from tpmstream.common.constraints import ValueConstraint

        ctx = I.ctx
        T = a["tpm_type"]
        tag = sum(1 for x in ctx.trace if x[0] == "call")
        strict = a["abort_on_error"]
        if isinstance(strict, S.Sym):
            raise Unsupported("symbolic abort_on_error")
        lst = a["size_constraints"]
        live = live_regions(lst)
        armed = [c for c in live if c.size_max is not None]
        cases = ["return"]
        if self.raising:
            cases += [("exceeded", c) for c in armed]
            if strict:
                cases += ["inner-exceeded", "anticipated", "subceeded", "value"]
            else:
                cases += ["value"]
        k = ctx.fork([z3.BoolVal(True)] * len(cases), "callee-outcome") if len(cases) > 1 else 0
        case = cases[k]
        rec = {"name": "process", "args": a, "case": case if isinstance(case, str) else "exceeded", "tag": tag, "live": list(live)}
        item = ("call", "process", rec)
        if case == "return":
            prim = hasattr(T, "_int_size") and not is_list_t(T)
            if prim:
                P = self.P[T.__name__]
                n = z3.IntVal(P["width"])
                lo, hi = width_range(P)
                v = ctx.fresh_int(f"val{tag}", lo, hi)
                if strict:
                    ctx.assume(allowed_formula(P, v))
                if T in self.fixed_values:
                    ctx.assume(self.fixed_values[T](v))
                value = TypedStub.make(T, S.SInt(v))
                rec["value_term"] = v
            else:
                n = ctx.fresh_int(f"n{tag}", self.min_size(T))
                if is_list_t(T) and a.get("count") is not None and a.get("array_size_constraint") is None:
                    (ET,) = T.__args__
                    if hasattr(ET, "_int_size") and ET.__name__ in self.P:
                        # a counted list of fixed-width elements consumes exactly count * width bytes
                        c = typed_int(a["count"]) if not isinstance(a["count"], int) else z3.IntVal(a["count"])
                        ctx.assume(n == z3.If(c >= 0, c, 0) * self.P[ET.__name__]["width"])
                value = self.result_hook(ctx, T, tag, a) if self.result_hook else None
                if value is None:
                    value = Opaque(T, tag)
                if not strict and not prim and may_be_none(T, a):
                    # warn mode: the owner of a region that was overrun gives up its body and returns None
                    if ctx.fork([z3.BoolVal(True), z3.BoolVal(True)], "callee-none") == 1:
                        value = None
            for c in live:
                c.size_already = S.lift_int(S.term(c.size_already) + n)
                if c.size_max is not None:
                    ctx.assume(S.term(c.size_already) <= typed_int(c.size_max))
            pos_add(ctx, n)
            size = S.SInt(ctx.fresh_int(f"retsize{tag}")) if not prim else P["width"]
            rec["consumed"] = n
            rec["result"] = value
            ctx.trace.append(item)
            return (size, value)
        # raising cases
        path = a["path"]
        if isinstance(case, tuple):
            c = case[1]
            n0 = ctx.fresh_int(f"n{tag}", 0)  # bytes consumed below before the offending field
            s = ctx.fresh_int(f"fs{tag}", 1, 8)  # width of the offending primitive
            for d in live:
                if d is c:
                    break
                d.size_already = S.lift_int(S.term(d.size_already) + n0 + s)
            if is_list_t(T) and a.get("count") is not None and a.get("array_size_constraint") is None:
                (ET,) = T.__args__
                if hasattr(ET, "_int_size") and ET.__name__ in self.P:
                    # counted list of fixed-width elements: the offending field is element j
                    w = self.P[ET.__name__]["width"]
                    j = ctx.fresh_int(f"j{tag}", 0)
                    cnt = typed_int(a["count"]) if not isinstance(a["count"], int) else z3.IntVal(a["count"])
                    ctx.assume(z3.And(j < cnt, n0 == j * w, s == w))
            cmax = typed_int(c.size_max)
            a0 = S.term(c.size_already) + n0
            ctx.assume(a0 <= cmax)
            ctx.assume_feasible(a0 + s > cmax)
            c.size_already = S.lift_int(a0)
            c.is_obsolete = True
            skipped = cmax - a0
            pos_add(ctx, n0 + skipped)
            exc = E.SizeConstraintExceededError.__new__(E.SizeConstraintExceededError)
            Exception.__init__(exc, "exceeded")
            exc.constraint = c
            exc.violator_path = Opaque("path", tag)
            exc.exceeded_by = S.lift_int(a0 + s - cmax)
            exc.bytes_remaining = None
            if lst is not None and not (hasattr(T, "_int_size") and not is_list_t(T)):
                # the callee may have opened regions of its own (nested TPM2Bs) that the unwinding abandons in the list
                if ctx.fork([z3.BoolVal(True), z3.BoolVal(True)], "abandoned-inner-region") == 1:
                    stale = foreign_region(ctx, f"stale{tag}")
                    list.append(lst, stale)
                    rec["abandoned"] = stale
        else:
            cls = {"inner-exceeded": E.SizeConstraintExceededError, "anticipated": E.AnticipatedSizeConstraintExceededError,
                   "subceeded": E.SizeConstraintSubceededError, "value": E.ValueConstraintViolatedError}[case]
            exc = cls.__new__(cls)
            Exception.__init__(exc, case)
            exc.constraint = foreign_region(ctx, tag) if case != "value" else ValueConstraint(Opaque("path", tag), None, None)
            exc.bytes_remaining = None
            n0 = ctx.fresh_int(f"n{tag}", 0)
            pos_add(ctx, n0)
        rec["exc"] = exc
        exc._pyvc_snap = error_snapshot(exc)
        ctx.trace.append(item)
        raise PyExc(exc, "callee")


def region_method_stub(name, params, defaults):
    """contract stub for SizeConstraint.set_constraint / assert_done / SizeConstraintList.bytes_parsed (proved in checks/leaf.py)"""

    def stub(I, args, kwargs):
        a = bind(params, defaults, args, kwargs, name)

        def gen():
            if a.get("abort_on_error") is not True:
                # warn mode: these methods report through yielded warnings and skip bytes; the walker must pass both on
                yield from relay_items(I.ctx, {"abort_on_error": a.get("abort_on_error"), "path": None, "tpm_type": None}, kinds=("warning", "need"))
            return drive_region_method(I, name, a)

        return IGen(gen(), name + "-contract")
        yield

    return stub


def drive_region_method(I, name, a):
    import tpmstream.common.error as E
    from tpmstream.common.event import WarningEvent

    ctx = I.ctx
    rec = {"name": name, "args": a}
    item = ("call", name, rec)
    if name == "set_constraint":
        me = a["self"]
        # safety obligations = the asserts of the real function
        cp = a["constraint_path"]
        sm = a["size_max"]
        ctx.count_safety("assert", "constraints.py:set_constraint")
        if cp is None:
            raise PyExc(AssertionError("constraint_path is None"), "constraints.py:set_constraint")
        smt = typed_int(sm)
        if not ctx.decide(smt >= 0, "size_max>=0"):
            raise PyExc(AssertionError("size_max < 0"), "constraints.py:set_constraint")
        others = a["other_size_constraints"]
        if not hasattr(others, "bytes_parsed"):
            raise PyExc(AssertionError("other_size_constraints has no bytes_parsed"), "constraints.py:set_constraint")
        rec["already_at_arming"] = me.size_already
        me.constraint_path = cp
        me.size_max = sm
        strict = a["abort_on_error"]
        viol = None
        for c in live_regions(others):
            if c is me or c.size_max is None:
                continue
            if ctx.decide(S.term(c.size_already) + smt > typed_int(c.size_max), "anticipate"):
                viol = c
                break
        rec["violated"] = viol
        if viol is None:
            ctx.trace.append(item)
            return None
        exc = E.AnticipatedSizeConstraintExceededError.__new__(E.AnticipatedSizeConstraintExceededError)
        Exception.__init__(exc, "anticipated")
        exc.constraint = viol
        exc.violator_path = cp
        exc.violator_value = sm
        exc.exceeded_by = S.lift_int(S.term(viol.size_already) + smt - typed_int(viol.size_max))
        exc.bytes_remaining = None
        rec["exc"] = exc
        ctx.trace.append(item)
        if strict:
            raise PyExc(exc, "constraints.py:set_constraint")
        ev = WarningEvent(error=exc)
        ctx.trace.append(("emit", ev))
        return None
    if name == "assert_done":
        me = a["self"]
        ctx.count_safety("assert", "constraints.py:assert_done")
        if me.size_max is None:
            raise PyExc(AssertionError("Cannot assert the end of a constraint before having initialized it."), "constraints.py:assert_done")
        me.is_obsolete = True
        strict = a["abort_on_error"]
        eq = ctx.decide(S.term(me.size_already) == typed_int(me.size_max), "region-full")
        rec["full"] = eq
        ctx.trace.append(item)
        if eq:
            return None
        exc = E.SizeConstraintSubceededError.__new__(E.SizeConstraintSubceededError)
        Exception.__init__(exc, "subceeded")
        exc.constraint = me
        exc.bytes_remaining = None
        rec["exc"] = exc
        if strict:
            raise PyExc(exc, "constraints.py:assert_done")
        ctx.trace.append(("emit", WarningEvent(error=exc)))
        n = typed_int(me.size_max) - S.term(me.size_already)
        ctx.trace.append(("needs", z3.simplify(n)))
        pos_add(ctx, n)
        return None
    raise Unsupported(name)


SET_CONSTRAINT = region_method_stub("set_constraint", ["self", "constraint_path", "size_max", "other_size_constraints", "abort_on_error"], {})
ASSERT_DONE = region_method_stub("assert_done", ["self", "all_size_constraints", "abort_on_error"], {"abort_on_error": True})


def is_parameter_encryption_stub(I, args, kwargs):
    """contract of is_parameter_encryption: exists a session with the decrypt (command) / encrypt (response) bit"""
    a = bind(["command", "authorizationArea", "for_response"], {"command": None, "authorizationArea": None, "for_response": False}, args, kwargs, "is_parameter_encryption")
    ctx = I.ctx
    ctx.count_safety("assert", "marshal.py:is_parameter_encryption")
    if a["command"] is not None and a["authorizationArea"] is not None:
        raise PyExc(AssertionError("both given"), "marshal.py:is_parameter_encryption")
    area = a["authorizationArea"]
    if a["command"] is not None:
        area = getattr(a["command"], "authorizationArea", None)
        if area is None:
            ctx.trace.append(("call", "is_parameter_encryption", {"args": a, "result": False}))
            return False
    if area is None:
        # iterating None
        raise PyExc(TypeError("'NoneType' object is not iterable"), "marshal.py:is_parameter_encryption")
    b = S.SBool(ctx.fresh_bool("any_session_bit"))
    ctx.trace.append(("call", "is_parameter_encryption", {"args": a, "result": b, "area": area}))
    return b
    yield
