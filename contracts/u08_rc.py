"""U8 — response codes.  Contract of TPM_RC.__format__/__str__/attributes, written from property C18
(the TPM 2.0 response-code layout), over a symbolic 32-bit value.  Name tables come from the pinned layout."""
from __future__ import annotations

import z3

from pyvc.sym import SStr, FmtInt, mk_str, bit_of


def _bit(v, k):
    return bit_of(v, k) == 1


def _name(table, default, k):
    return table.get(str(k), default)[0]


def _desc(table, default, k):
    return table.get(str(k), default)[1]


def rc_text_spec(env, v, L, variant=None):
    """expected text of TPM_RC(v); None = outside the property's quantifier (neither bit 7 nor bit 8 set, non-zero)"""
    if env.decide(v == 0):
        return "TPM_RC.SUCCESS"
    if not env.decide(_bit(v, 7)):
        if not env.decide(_bit(v, 8)):
            return None
        if env.decide(_bit(v, 10)):
            return "TPM_RC.UNKNOWN (Vendor-defined)"
        k = env.value(v % 128)
        warn = env.decide(_bit(v, 11))
        if variant == "swap-warn-error":
            warn = not warn
        if warn:
            return "TPM_RC." + _name(L["fmt0_warn"], L["default_warn"], k)
        return "TPM_RC." + _name(L["fmt0_error"], L["default_error"], k)
    # format one: number in the low six bits
    k = env.value(v % (128 if variant == "fmt1-seven-bits" else 64))
    name = _name(L["fmt1"], L["default_fmt1"], k)
    if env.decide(_bit(v, 6)):
        n = (v / 256) % (8 if variant == "param-three-bits" else 16)
        what = "Parameter No. "
    elif env.decide(_bit(v, 11)):
        n = (v / 256) % 8
        what = "Session No. "
    else:
        n = (v / 256) % 8
        what = "Handle No. "
    return mk_str(["TPM_RC.", name, " (", what, FmtInt(z3.simplify(n), ""), ")"])


def rc_rows_spec(env, v, L):
    """expected bit rows [(mask, name, details)] in display order (descending mask)"""
    if env.decide(v == 0):
        return []
    rows = [(0xFFFFF000, "reserved0", None)]
    if not env.decide(_bit(v, 7)):
        if not env.decide(_bit(v, 8)):
            return None
        warn = env.decide(_bit(v, 11))
        vendor = env.decide(_bit(v, 10))
        rows.append((0x800, "severity", "Warning" if warn else "Error"))
        rows.append((0x400, "vendorDefined", None))
        rows.append((0x200, "reserved1", None))
        rows.append((0x100, "version", "TPM 2.0"))
        rows.append((0x80, "format", None))
        det = None
        if not vendor:
            k = env.value(v % 128)
            t, d = (L["fmt0_warn"], L["default_warn"]) if warn else (L["fmt0_error"], L["default_error"])
            det = f"{_name(t, d, k)}: {_desc(t, d, k)}"
        rows.append((0x7F, "code", det))
        return rows
    k = env.value(v % 64)
    code = f"{_name(L['fmt1'], L['default_fmt1'], k)}: {_desc(L['fmt1'], L['default_fmt1'], k)}"
    if env.decide(_bit(v, 6)):
        n = z3.simplify((v / 256) % 16)
        rows.append((0xF00, "parameterNumber", mk_str(["Parameter No. ", FmtInt(n, "")])))
        rows.append((0x80, "format", None))
        rows.append((0x40, "parameterError", None))
    else:
        rows.append((0x800, "sessionError", None))
        n = z3.simplify((v / 256) % 8)
        if env.decide(_bit(v, 11)):
            rows.append((0x700, "sessionNumber", mk_str(["Session No. ", FmtInt(n, "")])))
        else:
            rows.append((0x700, "handleNumber", mk_str(["Handle No. ", FmtInt(n, "")])))
        rows.append((0x80, "format", None))
        rows.append((0x40, "parameterError", None))
    rows.append((0x3F, "code", code))
    return rows
