"""U5 — typed protocol integers.  Spec functions over the pinned layout (O1), written from properties C16 / C04."""
from __future__ import annotations

import z3

from pyvc.sym import FmtInt, mk_str


def width_range(P):
    w = P["width"]
    if P["signed"]:
        return -(1 << (8 * w - 1)), (1 << (8 * w - 1)) - 1
    return 0, (1 << (8 * w)) - 1


def allowed_formula(P, v):
    """v in the declared set of the primitive described by P (layout entry)"""
    alts = []
    for it in P["allowed"]:
        if "point" in it:
            alts.append(v == it["point"])
        else:
            lo, hi = it["range"]
            alts.append(z3.And(v >= lo, v < hi))
    return z3.Or(alts) if alts else z3.BoolVal(False)


def expected_names(env, P, v, tname=None):
    """declared text forms of value v for the primitive P: list of acceptable texts (aliases), [] if v has no declared name.
    Named ranges: '<owner>.<base><sep><offset as zero-padded hex>'."""
    out = []
    for it in P["allowed"]:
        if "owner" not in it:
            continue
        if "point" in it:
            if env.decide(v == it["point"]):
                out.append(f"{it['owner']}.{it['name']}")
                if tname and tname != it["owner"]:
                    out.append(f"{tname}.{it['name']}")  # an interface type may show its own name as the prefix
        else:
            lo, hi = it["range"]
            if env.decide(z3.And(v >= lo, v < hi)):
                for q in ([it["owner"]] + ([tname] if tname and tname != it["owner"] else [])):
                    out.append(mk_str([f"{q}.{it['base']}{it['sep']}", FmtInt(z3.simplify(v - lo), f"0{it['nibbles']}x")]))
    return out
