#!/usr/bin/env python3
"""Run checks against seeded mutations: apply each patch to /repo, run the checks, revert.
usage: seed_run.py [--checks C20,C18] [--seeds C20-m1,...] [--tier quick]   (defaults: property's own check; all seeds)
Writes seeded/RESULTS.json (matrix seed x check -> exit code, first VIOLATION line)."""
import argparse, json, os, subprocess, sys, time
ap = argparse.ArgumentParser()
ap.add_argument("--checks", default="")
ap.add_argument("--seeds", default="")
ap.add_argument("--tier", default="quick")
a = ap.parse_args()
root = "/verif/seeded"
seeds = [s for s in sorted(os.listdir(root)) if os.path.isdir(f"{root}/{s}") and os.path.exists(f"{root}/{s}/meta.json")]
if a.seeds:
    seeds = [s for s in seeds if s in a.seeds.split(",")]
manifest = json.load(open("/verif/MANIFEST.json"))
claimed = [c["property_id"] for c in manifest["checks"]]
resf = f"{root}/RESULTS.json"
results = json.load(open(resf)) if os.path.exists(resf) else {}
assert subprocess.run("git -C /repo status --porcelain", shell=True, capture_output=True, text=True).stdout.strip() == "", "/repo not clean"
for s in seeds:
    meta = json.load(open(f"{root}/{s}/meta.json"))
    checks = a.checks.split(",") if a.checks else [meta["property"]]
    checks = [c for c in checks if c in claimed]
    if not checks:
        continue
    r = subprocess.run(f"git -C /repo apply {root}/{s}/patch.diff", shell=True, capture_output=True, text=True)
    if r.returncode != 0:
        # a stale result must not survive: the seed has to be rebased onto the current tree (tools/seed_import.py)
        for c in checks:
            results.setdefault(s, {})[c] = {"exit": None, "violations": 0, "first": "PATCH DOES NOT APPLY: " + r.stderr[:160], "secs": 0}
        print(s, "PATCH DOES NOT APPLY", r.stderr[:200]); continue
    try:
        for c in checks:
            t0 = time.time()
            p = subprocess.run(f"cd /verif && timeout 3600 ./check {c} --tier {a.tier}", shell=True, capture_output=True, text=True)
            viol = [l for l in p.stdout.splitlines() if l.startswith("VIOLATION")]
            other = [l for l in p.stdout.splitlines() if l.startswith(("CHECKER-ERROR", "UNDECIDED"))]
            results.setdefault(s, {})[c] = {"exit": p.returncode, "violations": len(viol), "first": (viol or other or [""])[0][:300], "secs": round(time.time() - t0, 1)}
            print(f"{s:10s} {c}: exit {p.returncode} violations {len(viol)} {((viol or other or [''])[0])[:160]}")
            sys.stdout.flush()
    finally:
        subprocess.run("git -C /repo checkout -- .", shell=True)
json.dump(results, open(resf, "w"), indent=1, sort_keys=True)
