#!/usr/bin/env python3
"""Import a mutation produced by a sub-agent: confirm it in a fresh scratch worktree of /repo HEAD
(patch applies, full suite passes, demo fails with it and passes without it), then store it under
/verif/seeded/<name>/ with meta.json.  usage: seed_import.py <PROP> <src MUT dir> <name> <needs-text>"""
import json, os, shutil, subprocess, sys, tempfile

prop, src, name, needs = sys.argv[1:5]
wt = tempfile.mkdtemp(prefix="seedchk_", dir="/tmp")
os.rmdir(wt)
def sh(cmd, **kw):
    return subprocess.run(cmd, shell=True, capture_output=True, text=True, **kw)
r = sh(f"git -C /repo worktree add -q --detach {wt} HEAD")
assert r.returncode == 0, r.stderr
env = dict(os.environ, PYTHONPATH=f"{wt}/src")
ran = []
try:
    patch = os.path.join(src, "patch.diff")
    demo = os.path.join(src, "demo.py")
    d0 = sh(f"/venv/bin/python {demo}", env=env, cwd=wt)
    ran.append(f"demo on clean tree: exit {d0.returncode}")
    a = sh(f"git -C {wt} apply {patch}")
    ran.append(f"git apply: exit {a.returncode} {a.stderr.strip()[:200]}")
    ok = a.returncode == 0
    t = d1 = None
    if ok:
        t = sh("/venv/bin/python -m pytest -q -p no:cacheprovider --continue-on-collection-errors 2>&1 | tail -1", env=env, cwd=wt)
        ran.append(f"suite with patch: {t.stdout.strip()}")
        d1 = sh(f"/venv/bin/python {demo}", env=env, cwd=wt)
        ran.append(f"demo with patch: exit {d1.returncode}: {(d1.stdout + d1.stderr).strip()[-300:]}")
    good = ok and d0.returncode == 0 and d1.returncode != 0 and "14051 passed" in t.stdout and "failed" not in t.stdout
    meta = {"property": prop, "name": name, "needs_to_manifest": needs, "confirmed": bool(good), "base_commit": sh("git -C /repo rev-parse --short HEAD").stdout.strip(), "ran": ran,
            "files": sh(f"git -C {wt} diff --stat").stdout.strip().splitlines()[:-1]}
    if good:
        dst = f"/verif/seeded/{name}"
        os.makedirs(dst, exist_ok=True)
        shutil.copy(patch, dst + "/patch.diff")
        shutil.copy(demo, dst + "/demo.py")
        if os.path.exists(os.path.join(src, "notes.md")):
            shutil.copy(os.path.join(src, "notes.md"), dst + "/notes.md")
        json.dump(meta, open(dst + "/meta.json", "w"), indent=1)
    print(json.dumps(meta, indent=1))
finally:
    sh(f"git -C /repo worktree remove --force {wt}")
