#!/bin/sh
# run every claimed check (quick tier) on the current tree; summary on stdout
cd "$(dirname "$0")/.."
tier=${1:-quick}
for id in $(python3 -c "import json;print(' '.join(c['property_id'] for c in json.load(open('MANIFEST.json'))['checks']))"); do
  s=$(date +%s)
  ./check $id --tier $tier > /tmp/runall_$id.out 2>&1
  rc=$?
  e=$(date +%s)
  echo "$id exit=$rc $((e-s))s $(tail -1 /tmp/runall_$id.out | cut -c1-150)"
done
.venv/bin/python - <<'P'
import json, jsonschema, glob
sch = json.load(open('/root/.vp/EVIDENCE.schema.json'))
for f in sorted(glob.glob('evidence/*.json')):
    e = json.load(open(f))
    try:
        jsonschema.validate(e, sch)
        c = e['coverage']
        ok = c.get('obligations') == c.get('discharged')
        print(f, 'valid', e['level'], c.get('obligations'), c.get('discharged'), '' if ok else 'MISMATCH')
    except Exception as ex:
        print(f, 'INVALID', str(ex)[:100])
P
