NOTES = "Contract-based deductive verification of the real Python source with an own VC generator (pyvc) over z3/cvc5; see DESIGN.md. Exit codes: 0 held, 1 violation (VIOLATION line + replay file), 3 checker error."
NOT_APPLICABLE = {}
CHECKS = {
 "C20": dict(category="proof", technique="exhaustive evaluation of a table invariant + snapshot equality",
   text="finite representation invariant over the constant layout tables, evaluated exhaustively on the real imported classes (every command code x 4 tables, every list and union field, every allowed selector value), plus entry-by-entry equality of the dumped tables with the pinned snapshot spec/layout.json; complete because the domain is finite",
   note="trusted: CPython import of tpmstream.spec, the dump tool spec/dump_layout.py, the snapshot itself (pinned from this tree after the F14 repair); the behavioural half (decoding follows the tables) is C01"),
 "C18": dict(category="proof", technique="symbolic execution of the real formatter over a symbolic 32-bit value; per-path postconditions against a spec function; z3/cvc5",
   text="TPM_RC.__init__/__format__/__str__/attributes/are_bits_set/are_bits_unset are interpreted from their real AST over a symbolic value v in [0,2^32); on every path the text and the bit rows must equal a spec function written from the TPM 2.0 response-code layout (property statement), name tables compared with the pinned layout; unbounded in v (all 2^32 codes), canaries (three wrong spec variants) must be refuted",
   note="trusted: pyvc's reading of Python (conformance-checked, not proved), z3/cvc5, the bit-mask encoding; scope is the property's quantifier (bit 7 or bit 8 set, or zero)"),
}
