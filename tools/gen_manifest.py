#!/usr/bin/env python3
"""(Re)generate MANIFEST.json from the table below; validates against the schema."""
import json, os, sys
ROOT = os.path.dirname(os.path.dirname(os.path.abspath(__file__)))
sys.path.insert(0, ROOT)
from tools.manifest_table import CHECKS, NOT_APPLICABLE, NOTES

props = [json.loads(l)["id"] for l in open(os.path.join(ROOT, "properties.jsonl"))]
checks = []
for pid in props:
    if pid in CHECKS:
        c = CHECKS[pid]
        checks.append({
            "property_id": pid,
            "quick_cmd": f"./check {pid} --tier quick",
            "thorough_cmd": f"./check {pid} --tier thorough",
            "evidence_file": f"evidence/{pid}.json",
            "replay_cmd_template": f"./check {pid} --replay {{path}}",
            "engine": "pyvc",
            "level_claimed": {"category": c["category"], "text": c["text"], "design_ref": c.get("design_ref", f"DESIGN.md §5 {pid}")},
            "level_note": c["note"],
            "technique": c["technique"],
        })
na = [{"property_id": p, "reason": NOT_APPLICABLE.get(p, "check not built yet (framework under construction; DESIGN.md §5 gives the planned decision procedure)")} for p in props if p not in CHECKS]
m = {
    "version": 1,
    "setup_cmd": "./setup.sh",
    "hooks": {"guard": "TPMSTREAM_VERIF", "enable": "none needed: the checks read and symbolically execute the real source under /repo/src; nothing in /repo is instrumented",
              "baseline_off_cmd": "cd /repo && /venv/bin/python -m pytest -ra -q -p no:cacheprovider --timeout=900 --continue-on-collection-errors", "source_commits": [], "add_only": True},
    "engines": [{"name": "pyvc", "path": "pyvc/", "serves_properties": sorted(CHECKS), "kind_free_text": "own contract-based deductive verifier for Python: symbolic evaluation of the AST of the real functions (re-read from /repo on every run), sidecar contracts under contracts/, verification conditions discharged by z3 (python API) with cvc5 as second back end; finite table invariants by exhaustive evaluation"}],
    "checks": checks,
    "not_applicable": na,
    "notes": NOTES,
}
json.dump(m, open(os.path.join(ROOT, "MANIFEST.json"), "w"), indent=1)
try:
    import jsonschema
    jsonschema.validate(m, json.load(open("/root/.vp/MANIFEST.schema.json")))
    print("MANIFEST valid:", len(checks), "checks,", len(na), "not applicable")
except ImportError:
    print("written (jsonschema not available here)")
