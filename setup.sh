#!/bin/sh
# Build the overlay venv (offline): /venv's interpreter + z3-solver, cvc5, jsonschema from the wheelhouse,
# with /venv's site-packages (tpmstream editable -> /repo/src, dpkt, colorama, pytest) visible through a .pth.
set -e
cd "$(dirname "$0")"
if [ ! -x .venv/bin/python ] || ! .venv/bin/python -c "import z3, jsonschema, tpmstream" >/dev/null 2>&1; then
  rm -rf .venv
  /venv/bin/python -m venv .venv
  PIP_NO_INDEX=1 .venv/bin/pip install -q --no-index --find-links /opt/veriftools/wheels z3-solver cvc5 jsonschema
  echo "import site; site.addsitedir('/venv/lib/python3.12/site-packages')" > .venv/lib/python3.12/site-packages/_overlay.pth
fi
.venv/bin/python -c "import z3, jsonschema, tpmstream; print('setup ok', z3.get_version_string())"
