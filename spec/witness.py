"""O4 — witness generator over the pinned layout: well-formed encodings of any type (chosen selector values, counts, sizes),
plus single faults (size fields, leaf values, truncation, surplus).  Used for replays and bounded cross-checks only."""
from __future__ import annotations

import random


class Gen:
    def __init__(self, L, rng=None, max_list=3, max_buf=6):
        self.L = L
        self.rng = rng or random.Random(0)
        self.max_list = max_list
        self.max_buf = max_buf
        self.marks = []  # (kind, offset, width, info): 'size' fields and 'leaf' fields of the last encoding

    # ---- values
    def pick_allowed(self, P, prefer=None):
        items = P["allowed"]
        if prefer is not None:
            for it in items:
                if ("point" in it and it["point"] == prefer) or ("range" in it and it["range"][0] <= prefer < it["range"][1]):
                    return prefer
        it = self.rng.choice(items)
        if "point" in it:
            return it["point"]
        lo, hi = it["range"]
        return self.rng.choice([lo, hi - 1, min(hi - 1, lo + self.rng.randrange(0, 256))])

    def pick_invalid(self, P):
        w = P["width"]
        lo, hi = (-(1 << (8 * w - 1)), (1 << (8 * w - 1)) - 1) if P["signed"] else (0, (1 << (8 * w)) - 1)
        cands = []
        for it in P["allowed"]:
            if "point" in it:
                cands += [it["point"] - 1, it["point"] + 1]
            else:
                cands += [it["range"][0] - 1, it["range"][1]]
        cands += [lo, hi, self.rng.randint(lo, hi)]
        self.rng.shuffle(cands)
        for c in cands:
            if lo <= c <= hi and not any((c == it["point"]) if "point" in it else (it["range"][0] <= c < it["range"][1]) for it in P["allowed"]):
                return c
        return None

    def enc_int(self, P, v):
        return v.to_bytes(P["width"], "big", signed=P["signed"])

    # ---- encoders (append to out: bytearray)
    def prim(self, t, out, value=None, kind="leaf"):
        P = self.L["primitives"][t]
        v = self.pick_allowed(P, value) if value is None or True else value
        if value is not None:
            v = value
        self.marks.append((kind, len(out), P["width"], t))
        out += self.enc_int(P, v)
        return v

    def any(self, t, out, count=None, selector=None):
        L = self.L
        if t.startswith("list["):
            e = t[5:-1]
            return [self.any(e, out) for _ in range(count)]
        if t in L["primitives"]:
            return self.prim(t, out)
        if t in L["tpm2b"]:
            return self.tpm2b(t, out)
        if t in L["unions"]:
            return self.union(t, out, selector)
        return self.struct(L["structs"][t], out)

    def struct(self, ent, out):
        values = {}
        sel = ent.get("selectors", {})
        fields = ent["fields"]
        selector_fields = set(sel.values())
        for i, f in enumerate(fields):
            nxt = fields[i + 1] if i + 1 < len(fields) else None
            if f["type"].startswith("list["):
                continue  # encoded together with its count
            if nxt is not None and nxt["type"].startswith("list["):
                # count field followed by its list
                e = nxt["type"][5:-1]
                n = self.rng.randrange(0, self.max_list + 1)
                P = self.L["primitives"][f["type"]]
                if not any((n == it["point"]) if "point" in it else (it["range"][0] <= n < it["range"][1]) for it in P["allowed"]):
                    n = self.pick_allowed(P)
                    if n > 8:
                        n = 0
                self.prim(f["type"], out, value=n, kind="count")
                values[f["name"]] = n
                values[nxt["name"]] = [self.any(e, out) for _ in range(n)]
                continue
            if f["name"] in sel:
                values[f["name"]] = self.any(f["type"], out, selector=values[sel[f["name"]]])
                continue
            if f["name"] in selector_fields:
                # choose a selector value that selects a member in every union it governs
                unions = [g["type"] for g in fields if sel.get(g["name"]) == f["name"]]
                v = self.pick_selector(f["type"], unions)
                self.prim(f["type"], out, value=v)
                values[f["name"]] = v
                continue
            values[f["name"]] = self.any(f["type"], out)
        return values

    def pick_selector(self, st, unions):
        P = self.L["primitives"][st]
        for _ in range(50):
            v = self.pick_allowed(P)
            ok = True
            for un in unions:
                U = self.L["unions"][un]
                vals = [x["value"] for x in U["selected_by"].values() if x and "value" in x]
                if v not in vals and not any(x is None for x in U["selected_by"].values()):
                    ok = False
            if ok:
                return v
        return self.pick_allowed(P)

    def union(self, t, out, selector):
        U = self.L["unions"][t]
        member = fallback = None
        for m in U["selected_by_order"]:
            v = U["selected_by"][m]
            if v is None:
                fallback = m
            elif "value" in v and v["value"] == selector:
                member = m
        member = member or fallback
        if member is None:
            return None
        mt = next(f["type"] for f in U["members"] if f["name"] == member)
        if mt == "None":
            return {member: None}
        if mt.startswith("list["):
            return {member: [self.any(mt[5:-1], out) for _ in range(U["list_size"][member])]}
        return {member: self.any(mt, out)}

    def tpm2b(self, t, out):
        sf, bf = self.L["tpm2b"][t]["fields"]
        P = self.L["primitives"][sf["type"]]
        pos = len(out)
        self.marks.append(("size", pos, P["width"], t))
        out += b"\x00" * P["width"]
        start = len(out)
        if bf["type"].startswith("list["):
            n = self.rng.randrange(0, self.max_buf + 1)
            for _ in range(n):
                self.any(bf["type"][5:-1], out)
        elif self.rng.random() < 0.15:
            pass  # empty structured body
        else:
            self.any(bf["type"], out)
        size = len(out) - start
        out[pos:pos + P["width"]] = size.to_bytes(P["width"], "big")
        return size

    def session_cmd(self, out, attrs):
        self.prim("TPMI_SH_AUTH_SESSION", out, value=0x40000009)
        self.tpm2b("TPM2B_NONCE", out)
        self.prim("TPMA_SESSION", out, value=attrs)
        self.tpm2b("TPM2B_AUTH", out)

    def session_rsp(self, out, attrs):
        self.tpm2b("TPM2B_NONCE", out)
        self.prim("TPMA_SESSION", out, value=attrs)
        self.tpm2b("TPM2B_AUTH", out)

    def command(self, ccn, sessions=0, decrypt=False, encrypt=False):
        L = self.L
        self.marks = []
        out = bytearray()
        ent = L["commands"][ccn]
        self.prim("TPMI_ST_COMMAND_TAG", out, value=0x8002 if sessions else 0x8001)
        self.marks.append(("size", len(out), 4, "commandSize"))
        out += b"\x00\x00\x00\x00"
        self.prim("TPM_CC", out, value=ent["cc"])
        self.struct(ent["cmd_handles"], out)
        if sessions:
            apos = len(out)
            self.marks.append(("size", apos, 4, "authSize"))
            out += b"\x00\x00\x00\x00"
            st = len(out)
            for i in range(sessions):
                a = (0x20 if decrypt and i == 0 else 0) | (0x40 if encrypt and i == 0 else 0) | 0x01
                self.session_cmd(out, a)
            out[apos:apos + 4] = (len(out) - st).to_bytes(4, "big")
        if decrypt and f"cmd_params:{ccn}" in L["encrypted"]:
            self.struct(L["encrypted"][f"cmd_params:{ccn}"], out)
        else:
            self.struct(ent["cmd_params"], out)
        out[2:6] = len(out).to_bytes(4, "big")
        return bytes(out)

    def response(self, ccn, sessions=0, encrypt=False, rc=0):
        L = self.L
        self.marks = []
        out = bytearray()
        ent = L["commands"][ccn]
        self.prim("TPM_ST", out, value=0x8002 if sessions and rc == 0 else 0x8001)
        self.marks.append(("size", len(out), 4, "responseSize"))
        out += b"\x00\x00\x00\x00"
        self.prim("TPM_RC", out, value=rc)
        if rc == 0:
            self.struct(ent["rsp_handles"], out)
            if sessions:
                ppos = len(out)
                self.marks.append(("size", ppos, 4, "parameterSize"))
                out += b"\x00\x00\x00\x00"
                st = len(out)
            if encrypt and f"rsp_params:{ccn}" in L["encrypted"]:
                self.struct(L["encrypted"][f"rsp_params:{ccn}"], out)
            else:
                self.struct(ent["rsp_params"], out)
            if sessions:
                out[ppos:ppos + 4] = (len(out) - st).to_bytes(4, "big")
                for i in range(sessions):
                    self.session_rsp(out, (0x40 if encrypt and i == 0 else 0) | 0x01)
        out[2:6] = len(out).to_bytes(4, "big")
        return bytes(out)

    def value_of(self, tname):
        self.marks = []
        out = bytearray()
        self.any(tname, out)
        return bytes(out)


def faults(data, marks, L, rng, limit=12):
    """single-fault variants: (label, bytes)"""
    out = []
    sizes = [m for m in marks if m[0] in ("size",)]
    leaves = [m for m in marks if m[0] == "leaf"]
    rng.shuffle(sizes)
    rng.shuffle(leaves)
    for kind, off, w, info in sizes[:4]:
        cur = int.from_bytes(data[off:off + w], "big")
        for d in (-1, +1, -cur if cur else 3):
            nv = cur + d
            if 0 <= nv < (1 << (8 * w)):
                out.append((f"size {info}@{off} {cur}->{nv}", data[:off] + nv.to_bytes(w, "big") + data[off + w:]))
    g = Gen(L, rng)
    for kind, off, w, t in leaves[:4]:
        bad = g.pick_invalid(L["primitives"][t])
        if bad is not None:
            out.append((f"value {t}@{off} -> {bad}", data[:off] + bad.to_bytes(w, "big", signed=L["primitives"][t]["signed"]) + data[off + w:]))
    for cut in sorted({0, 1, len(data) // 2, len(data) - 1}):
        if 0 <= cut < len(data):
            out.append((f"truncate to {cut}", data[:cut]))
    out.append(("surplus 1", data + b"\x00"))
    out.append(("surplus 3", data + b"\xaa\xbb\xcc"))
    return out[:limit]
