"""O2 — reference semantics of decoding, written from the property statements over the pinned layout (O1).

It shares no code with /repo.  Used to judge replays and the bounded end-to-end cross-checks (never as proof).
Strict mode is defined completely; warn mode is defined up to and including the first problem (C07)."""
from __future__ import annotations

import re


class Stop(Exception):
    def __init__(self, err):
        self.err = err


def allowed(P, v):
    for it in P["allowed"]:
        if "point" in it:
            if v == it["point"]:
                return True
        elif it["range"][0] <= v < it["range"][1]:
            return True
    return False


class Decoder:
    def __init__(self, L, data, mode="strict"):
        self.L = L
        self.data = data
        self.pos = 0
        self.events = []
        self.regions = []  # dicts: path, limit, start
        self.cc = None
        self.mode = mode
        self.first_problem = None

    # ---- helpers
    def problem(self, err):
        """strict: stop; warn: remember the first problem and stop the reference there (C07 compares prefixes)"""
        raise Stop(err)

    def need(self, n):
        if self.pos + n > len(self.data):
            # every byte that exists is consumed; then the input is depleted
            self.pos = len(self.data)
            raise Stop({"kind": "InputStreamBytesDepletedError", "command_code": self.cc})
        b = self.data[self.pos:self.pos + n]
        self.pos += n
        return b

    def prim(self, tname, path):
        P = self.L["primitives"][tname]
        w = P["width"]
        viol = [r for r in self.regions if self.pos + w > r["start"] + r["limit"]]
        if viol:
            alts = []
            for r in viol:
                end = r["start"] + r["limit"]
                alts.append({"kind": "SizeConstraintExceededError", "constraint_path": r["path"], "size_max": r["limit"], "size_already": self.pos - r["start"],
                             "violator_path": path, "exceeded_by": self.pos + w - end, "resume": max(end, self.pos)})
            # the offending bytes (rest of the named region) are consumed before the error is raised
            first = alts[0]
            skip = first["resume"] - self.pos
            if self.pos + skip > len(self.data):
                self.pos = len(self.data)
                raise Stop({"kind": "InputStreamBytesDepletedError", "command_code": self.cc, "alternatives_if_longer": alts})
            err = dict(first)
            err["alternatives"] = alts
            err["bytes_remaining_by_alt"] = [self.data[a["resume"]:] for a in alts]
            raise Stop(err)
        b = self.need(w)
        v = int.from_bytes(b, "big", signed=P["signed"])
        if not allowed(P, v):
            err = {"kind": "ValueConstraintViolatedError", "constraint_path": path, "tpm_type": tname, "value": v, "bytes_remaining": self.data[self.pos:]}
            if self.mode == "strict":
                raise Stop(err)
            self.events.append((path, tname, v))
            raise Stop(dict(err, after_event=True))
        self.events.append((path, tname, v))
        return v

    def open_region(self, path, limit):
        # every enclosing region the announced size cannot fit in is violated at this point; the statement does not say which
        # of several is named, so each is an acceptable description (as for Exceeded in prim())
        alts = []
        for r in self.regions:
            if (self.pos - r["start"]) + limit > r["limit"]:
                alts.append({"kind": "AnticipatedSizeConstraintExceededError", "constraint_path": r["path"], "size_max": r["limit"], "size_already": self.pos - r["start"],
                             "violator_path": path, "violator_value": limit, "exceeded_by": (self.pos - r["start"]) + limit - r["limit"], "bytes_remaining": self.data[self.pos:]})
        if alts:
            err = dict(alts[0])
            err["alternatives"] = alts
            raise Stop(err)
        r = {"path": path, "limit": limit, "start": self.pos}
        self.regions.append(r)
        return r

    def close_region(self, r):
        self.regions.remove(r)
        if self.pos - r["start"] != r["limit"]:
            raise Stop({"kind": "SizeConstraintSubceededError", "constraint_path": r["path"], "size_max": r["limit"], "size_already": self.pos - r["start"], "bytes_remaining": self.data[self.pos:]})

    # ---- types
    def any(self, t, path, count=None, selector=None, enc=False, region=None):
        L = self.L
        if t.startswith("list["):
            return self.list_(t, path, count, region)
        if t in L["primitives"]:
            return self.prim(t, path)
        if t in L["tpm2b"]:
            return self.tpm2b(t, path)
        if t in L["unions"]:
            return self.union(t, path, selector)
        if t in L["structs"]:
            return self.struct(L["structs"][t], t, path)
        raise KeyError(t)

    def struct(self, ent, shown, path):
        self.events.append((path, shown, None))
        values = {}
        sel = ent.get("selectors", {})
        prev_nonlist = None
        for f in ent["fields"]:
            p = f"{path}.{f['name']}"
            if f["type"].startswith("list["):
                values[f["name"]] = self.any(f["type"], p, count=prev_nonlist)
            elif f["name"] in sel:
                values[f["name"]] = self.any(f["type"], p, selector=values[sel[f["name"]]])
                prev_nonlist = values[f["name"]]
            else:
                values[f["name"]] = self.any(f["type"], p)
                prev_nonlist = values[f["name"]]
        return values

    def list_(self, t, path, count, region=None):
        e = t[5:-1]
        self.events.append((path, t, None))
        out = []
        if region is not None:
            i = 0
            while self.pos - region["start"] < region["limit"]:
                out.append(self.any(e, f"{path}[{i}]"))
                i += 1
            return out
        for i in range(max(count, 0)):
            out.append(self.any(e, f"{path}[{i}]"))
        return out

    def tpm2b(self, t, path):
        ent = self.L["tpm2b"][t]
        sf, bf = ent["fields"]
        self.events.append((path, t, None))
        s = self.any(sf["type"], f"{path}.{sf['name']}")
        r = self.open_region(f"{path}.{sf['name']}", s)
        bp = f"{path}.{bf['name']}"
        if bf["type"].startswith("list["):
            v = self.list_(bf["type"], bp, s)
        elif s == 0:
            self.events.append((bp, bf["type"], None))
            v = None
        else:
            v = self.any(bf["type"], bp)
        self.close_region(r)
        return {sf["name"]: s, bf["name"]: v}

    def union(self, t, path, selector):
        U = self.L["unions"][t]
        self.events.append((path, t, None))
        member = None
        fallback = None
        for m in U["selected_by_order"]:
            v = U["selected_by"][m]
            if v is None:
                fallback = m
            elif "value" in v and v["value"] == selector:
                member = m
        if member is None:
            member = fallback
        if member is None:
            raise Stop({"kind": "ValueConstraintViolatedError", "fatal": True, "value": selector})
        mt = next(f["type"] for f in U["members"] if f["name"] == member)
        if mt == "None":
            return {member: None}
        p = f"{path}.{member}"
        if mt.startswith("list["):
            return {member: self.list_(mt, p, U["list_size"][member])}
        return {member: self.any(mt, p)}

    def area(self, ent, path, enc_ent=None):
        e = enc_ent or ent
        return self.struct(e, e["name"], path)

    def command(self, path=""):
        L = self.L
        self.events.append((path, "Command", None))
        R = {"path": f"{path}.commandSize", "limit": None, "start": self.pos}
        tag = self.prim("TPMI_ST_COMMAND_TAG", f"{path}.tag")
        size = self.prim("UINT32", f"{path}.commandSize")
        R["limit"] = size
        self.regions.append(R)
        cc = self.prim("TPM_CC", f"{path}.commandCode")
        self.cc = cc
        ent = next((c for c in L["commands"].values() if c["cc"] == cc), None)
        if ent is None:
            raise Stop({"kind": "ValueConstraintViolatedError", "fatal": True, "constraint_path": f"{path}.commandCode", "value": cc})
        ccn = next(k for k, c in L["commands"].items() if c is ent)
        self.area(ent["cmd_handles"], f"{path}.handles")
        decrypt = False
        sessions = None
        if tag == 0x8002:
            asz = self.prim("UINT32", f"{path}.authSize")
            ra = self.open_region(f"{path}.authSize", asz)
            sessions = self.list_("list[TPMS_AUTH_COMMAND]", f"{path}.authorizationArea", None, region=ra)
            self.close_region(ra)
            decrypt = any(s["sessionAttributes"] & 0x20 for s in sessions)
        enc_ent = L["encrypted"].get(f"cmd_params:{ccn}") if decrypt else None
        if decrypt and enc_ent is None:
            raise Stop({"kind": "unspecified", "why": "decrypt session on a command without size-prefixed first parameter (known finding F5)"})
        self.area(ent["cmd_params"], f"{path}.parameters", enc_ent)
        self.close_region(R)
        encrypt = bool(sessions) and any(s["sessionAttributes"] & 0x40 for s in sessions)
        return cc, encrypt

    def response(self, cc, enc, path=""):
        L = self.L
        self.events.append((path, "Response", None))
        R = {"path": f"{path}.responseSize", "limit": None, "start": self.pos}
        tag = self.prim("TPM_ST", f"{path}.tag")
        size = self.prim("UINT32", f"{path}.responseSize")
        R["limit"] = size
        self.regions.append(R)
        rc = self.prim("TPM_RC", f"{path}.responseCode")
        if rc == 0:
            ent = next((c for c in L["commands"].values() if c["cc"] == cc), None)
            if ent is None:
                raise Stop({"kind": "ValueConstraintViolatedError", "fatal": True, "value": cc})
            ccn = next(k for k, c in L["commands"].items() if c is ent)
            self.area(ent["rsp_handles"], f"{path}.handles")
            rp = None
            if tag == 0x8002:
                psz = self.prim("UINT32", f"{path}.parameterSize")
                rp = self.open_region(f"{path}.parameterSize", psz)
            enc_ent = L["encrypted"].get(f"rsp_params:{ccn}") if enc else None
            if enc and enc_ent is None:
                raise Stop({"kind": "unspecified", "why": "encrypted response of a command without size-prefixed first response parameter (F5)"})
            self.area(ent["rsp_params"], f"{path}.parameters", enc_ent)
            if rp is not None:
                self.close_region(rp)
            if tag == 0x8002:
                sessions = self.list_("list[TPMS_AUTH_RESPONSE]", f"{path}.authorizationArea", None, region=R)
                has = any(s["sessionAttributes"] & 0x40 for s in sessions)
                if has != bool(enc):
                    raise Stop({"kind": "unspecified", "why": "encryption flag disagrees with the response's sessions (F6)"})
        self.close_region(R)


def decode(L, tname, data, command_code=None, enc=False, mode="strict"):
    """returns {'events': [(path, type, value|None)], 'error': dict|None, 'consumed': int}"""
    d = Decoder(L, data, mode)
    err = None
    try:
        if tname == "Command":
            d.command()
        elif tname == "Response":
            d.cc = None
            d.response(command_code, enc)
        elif tname == "CommandResponseStream":
            while True:
                if d.pos >= len(data):
                    break
                d.regions = []
                cc, encrypt = d.command()
                if d.pos >= len(data):
                    break  # the boundary between a command and its response is a message boundary too
                d.regions = []
                d.response(cc, encrypt)
        else:
            d.any(tname, "")
        if tname != "CommandResponseStream" and d.pos < len(data):
            err = {"kind": "InputStreamSuperfluousBytesError", "bytes_remaining": data[d.pos:], "command_code": d.cc}
    except Stop as s:
        err = s.err
    return {"events": d.events, "error": err, "consumed": d.pos}
