"""Dump the wire layout held in tpmstream's tables (oracle O1).

Used twice: once to create the pinned snapshot spec/layout.json (committed, read-only afterwards),
and on every run of C20 to dump the *current* tables for comparison with the snapshot.
It only reads declarative data (dataclass fields, class attributes) — no decoding code.
"""
from __future__ import annotations

import dataclasses
import json
import sys
from typing import Any


def typeref(t):
    if t is None or t is type(None):
        return "None"
    if t is Any:
        return "Any"
    origin = getattr(t, "__origin__", None)
    if origin is list:
        (a,) = t.__args__
        return f"list[{typeref(a)}]"
    if t is list:
        return "list"
    return t.__name__


def range_info(r):
    """a NamedRange described through its observable behaviour (membership, iteration, member names), not through its
    private fields: [start, end) = the maximal interval around its first member that `in` accepts"""
    first = next(iter(r))
    start = int(first)
    if start not in r:
        raise ValueError(f"first member {start:#x} of {r!r} is not contained in it")
    while (start - 1) in r:  # iteration must start at the lowest member; tolerate (and pin) anything else
        start -= 1
    hi, step = start, 1
    while (hi + step) in r:
        hi += step
        step *= 2
    lo_in, hi_out = hi, hi + step
    while hi_out - lo_in > 1:
        mid = (lo_in + hi_out) // 2
        if mid in r:
            lo_in = mid
        else:
            hi_out = mid
    end = hi_out
    name = str(getattr(first, "_name", ""))
    base, sep, nibbles = getattr(r, "_basename", None), getattr(r, "_sep", None), getattr(r, "_index_nibbles", None)
    if base is None or sep is None or nibbles is None:
        digits = len(name) - len(name.rstrip("0123456789abcdef"))
        nibbles = digits
        sep = name[-digits - 1] if digits < len(name) else ""
        base = name[: -digits - 1]
    owner = getattr(r, "_type", None) or type(first)
    return {"range": [start, end], "owner": owner.__name__, "base": base, "sep": sep, "nibbles": nibbles}


def allowed_items(vv):
    """flatten a ValidValues into points / intervals with owner and name"""
    from tpmstream.spec.common.values import NamedRange

    out = []
    for v in vv._values:
        out.extend(_item(v))
    return out


def _member_items(cls):
    from tpmstream.spec.common.values import NamedRange

    items = []
    for attr in cls:  # IterableMeta.__iter__ -> class_iter
        if isinstance(attr, NamedRange):
            items.append(range_info(attr))
        else:
            items.append({"point": int(attr._value), "owner": type(attr).__name__, "name": attr._name})
    return items


def _item(v):
    from tpmstream.spec.common.values import NamedRange

    if isinstance(v, bool):
        return [{"point": int(v)}]
    if isinstance(v, int):
        return [{"point": v}]
    if isinstance(v, range):
        if v.step != 1:
            return [{"point": x} for x in v]
        return [{"range": [v.start, v.stop]}]
    if isinstance(v, NamedRange):
        return [range_info(v)]
    if isinstance(v, type):
        return _member_items(v)
    if hasattr(v, "_name") and hasattr(v, "_value"):
        return [{"point": int(v._value), "owner": type(v).__name__, "name": v._name}]
    raise TypeError(f"unknown allowed-value item {v!r}")


def text_kind(t):
    """how str()/format() of an instance is produced: enum (own name table), bitfield, plain (delegating to the stored value)"""
    from tpmstream.spec.common.values import ValidValues

    if "class_iter" in dir(t):
        return "enum"
    if hasattr(t, "attributes"):
        return "bitfield"
    return "plain"


def dump_primitive(t):
    d = {
        "width": t._int_size,
        "signed": bool(t._signed),
        "bases": [b.__name__ for b in t.__mro__[1:] if b.__name__ not in ("object",)],
        "allowed": allowed_items(t._valid_values),
        "text": text_kind(t),
    }
    if hasattr(t, "attributes") and t.__name__ != "TPM_RC":
        import inspect

        from tpmstream.spec.common.values import _is_public_non_funtion_attr

        masks = []
        for name, attr in inspect.getmembers(t):
            if _is_public_non_funtion_attr(name, attr):
                masks.append([name, int(attr._value)])
        masks.sort(key=lambda m: m[1])
        d["bitfields"] = masks
    return d


def dump_fields(t):
    return [{"name": f.name, "type": typeref(f.type)} for f in dataclasses.fields(t)]


def dump_struct(t):
    d = {"fields": dump_fields(t)}
    if hasattr(t, "_selectors"):
        d["selectors"] = dict(t._selectors)
    return d


def dump_union(t):
    sel = {}
    for member, v in t._selected_by.items():
        if v is None:
            sel[member] = None
        elif isinstance(v, type):
            sel[member] = {"class": v.__name__}
        else:
            sel[member] = {"value": int(v), "text": f"{v}"}
    d = {"members": dump_fields(t), "selected_by": sel, "selected_by_order": list(t._selected_by.keys())}
    if hasattr(t, "_list_size"):
        d["list_size"] = {k: int(v) for k, v in t._list_size.items()}
    return d


def dump():
    from tpmstream.spec.commands import Command, CommandResponseStream, Response
    from tpmstream.spec.commands.params_common import TPM2B_ENCRYPTED_PARAM, TPMS_PARAMS
    from tpmstream.spec.common import tpm_rc
    from tpmstream.spec.structures import structures_types
    from tpmstream.spec.structures.constants import TPM_CC

    out = {"primitives": {}, "structs": {}, "tpm2b": {}, "unions": {}, "commands": {}, "encrypted": {}, "frames": {}, "rc": {}}
    names = [t.__name__ for t in structures_types]
    out["structure_type_names"] = sorted(names)
    for t in structures_types:
        n = t.__name__
        if hasattr(t, "_int_size"):
            out["primitives"][n] = dump_primitive(t)
        elif n.startswith("TPM2B"):
            out["tpm2b"][n] = dump_struct(t)
        elif hasattr(t, "_selected_by"):
            out["unions"][n] = dump_union(t)
        else:
            out["structs"][n] = dump_struct(t)
    out["tpm2b"]["TPM2B_ENCRYPTED_PARAM"] = dump_struct(TPM2B_ENCRYPTED_PARAM)
    maps = {
        "cmd_handles": Command._type_maps["handles"],
        "cmd_params": Command._type_maps["parameters"],
        "rsp_handles": Response._type_maps["handles"],
        "rsp_params": Response._type_maps["parameters"],
    }
    for cc in TPM_CC:
        e = {"cc": int(cc._value)}
        for k, m in maps.items():
            t = m[cc]
            e[k] = {"name": t.__name__, "fields": dump_fields(t)}
            if hasattr(t, "_selectors"):
                e[k]["selectors"] = dict(t._selectors)
            if k.endswith("params") and issubclass(t, TPMS_PARAMS):
                ann = getattr(t, "__annotations__", {})
                first = next(iter(ann.values()), None)
                if first is not None and first.__name__.startswith("TPM2B"):
                    enc = t.encrypted()
                    out["encrypted"][f"{k}:{cc._name}"] = {"name": enc.__name__, "fields": dump_fields(enc)}
        out["commands"][cc._name] = e
    for k, m in maps.items():
        out.setdefault("map_keys", {})[k] = sorted(int(c) for c in m.keys())
    out["frames"]["Command"] = {"fields": dump_fields(Command), "selectors": dict(Command._selectors)}
    out["frames"]["Response"] = {"fields": dump_fields(Response)}
    out["frames"]["CommandResponseStream"] = {"bases": [typeref(b) for b in getattr(CommandResponseStream, "__orig_bases__", ())]}
    out["rc"] = {
        "fmt0_error": {str(k): list(v) for k, v in sorted(tpm_rc.TPM_RC_FMT0_ERROR_MAP.items())},
        "fmt0_warn": {str(k): list(v) for k, v in sorted(tpm_rc.TPM_RC_FMT0_WARN_MAP.items())},
        "fmt1": {str(k): list(v) for k, v in sorted(tpm_rc.TPM_RC_FMT1_MAP.items())},
        "default_error": list(tpm_rc.TPM_RC_FMT0_ERROR_MAP.default_factory()),
        "default_warn": list(tpm_rc.TPM_RC_FMT0_WARN_MAP.default_factory()),
        "default_fmt1": list(tpm_rc.TPM_RC_FMT1_MAP.default_factory()),
    }
    return out


if __name__ == "__main__":
    json.dump(dump(), open(sys.argv[1], "w") if len(sys.argv) > 1 else sys.stdout, indent=1, sort_keys=True)
