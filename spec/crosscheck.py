"""End-to-end cross-check through the public API: Binary.marshal versus the reference semantics (refsem) on concrete inputs
from the witness generator.  Bounded by construction; used for replays and as a labelled bounded stand-in, never as proof."""
from __future__ import annotations

import json
import os
import random
import sys

HERE = os.path.dirname(os.path.abspath(__file__))
sys.path.insert(0, HERE)
import refsem  # noqa: E402
import witness  # noqa: E402
from dump_layout import typeref  # noqa: E402

_L = None


def layout():
    global _L
    if _L is None:
        _L = json.load(open(os.path.join(HERE, "layout.json")))
    return _L


def resolve_type(tname):
    from tpmstream.spec import all_types
    from tpmstream.spec.commands.params_common import TPM2B_ENCRYPTED_PARAM

    for t in all_types:
        if t.__name__ == tname:
            return t
    if tname == "TPM2B_ENCRYPTED_PARAM":
        return TPM2B_ENCRYPTED_PARAM
    raise KeyError(tname)


def cc_member(cc):
    from tpmstream.spec.structures.constants import TPM_CC

    if cc is None:
        return None
    for m in TPM_CC:
        if int(m) == cc:
            return m
    return cc


def real_decode(tname, data, command_code=None, enc=False, mode="strict"):
    """run the real decoder; returns {'events', 'warnings', 'error'}"""
    from tpmstream.io.binary import Binary

    T = resolve_type(tname)
    events, warnings = [], []
    err = None
    try:
        for e in Binary.marshal(tpm_type=T, buffer=data, command_code=cc_member(command_code), parameter_encryption=True if enc else None, abort_on_error=(mode == "strict")):
            if type(e).__name__ == "MarshalEvent":
                v = None if e.value is ... else (None if e.value is None else int(e.value))
                tn = typeref(e.type)
                events.append((str(e.path), tn, v))
            else:
                warnings.append((len(events), describe(e.error)))
    except Exception as ex:
        err = describe(ex)
    return {"events": events, "warnings": warnings, "error": err}


def describe(ex):
    d = {"kind": type(ex).__name__}
    c = getattr(ex, "constraint", None)
    if c is not None:
        d["constraint_path"] = str(c.constraint_path)
        if hasattr(c, "size_max"):
            d["size_max"] = None if c.size_max is None else int(c.size_max)
            d["size_already"] = int(c.size_already)
        if hasattr(c, "tpm_type") and c.tpm_type is not None:
            d["tpm_type"] = getattr(c.tpm_type, "__name__", str(c.tpm_type))
    for k in ("violator_path",):
        if hasattr(ex, k):
            d[k] = str(getattr(ex, k))
    for k in ("exceeded_by", "violator_value", "value"):
        if hasattr(ex, k) and getattr(ex, k) is not None:
            try:
                d[k] = int(getattr(ex, k))
            except Exception:
                d[k] = repr(getattr(ex, k))
    if hasattr(ex, "bytes_remaining") and ex.bytes_remaining is not None:
        try:
            d["bytes_remaining"] = bytes(ex.bytes_remaining)
        except Exception:
            d["bytes_remaining"] = repr(ex.bytes_remaining)
    if hasattr(ex, "command_code"):
        cc = ex.command_code
        d["command_code"] = None if cc is None else int(cc)
    if d["kind"] not in ("ValueConstraintViolatedError", "SizeConstraintExceededError", "SizeConstraintSubceededError", "AnticipatedSizeConstraintExceededError",
                         "InputStreamBytesDepletedError", "InputStreamSuperfluousBytesError"):
        d["message"] = str(ex)[:200]
    return d


def events_match(ref, real):
    if len(ref) != len(real):
        return f"{len(real)} events, expected {len(ref)}; first difference at {next((i for i, (a, b) in enumerate(zip(ref, real)) if a != b), min(len(ref), len(real)))}"
    for i, (a, b) in enumerate(zip(ref, real)):
        if a != b:
            return f"event {i}: {b} expected {a}"
    return None


def error_match(ref, real):
    """ref: refsem error dict (may carry alternatives); real: describe() dict or None"""
    if ref is None:
        return None if real is None else f"unexpected {real}"
    if ref["kind"] == "unspecified":
        return None
    if real is None:
        return f"accepted, expected {ref['kind']}"
    if real["kind"] != ref["kind"]:
        return f"{real['kind']} expected {ref['kind']}"
    alts = ref.get("alternatives") or [ref]
    last = None
    for i, a in enumerate(alts):
        bad = None
        for k in ("constraint_path", "size_max", "size_already", "violator_path", "exceeded_by", "violator_value", "value", "command_code"):
            if k in a and k in real and a[k] != real[k]:
                bad = f"{k} = {real[k]!r} expected {a[k]!r}"
                break
        if bad is None:
            br = ref.get("bytes_remaining_by_alt", [None] * len(alts))[i] if "bytes_remaining_by_alt" in ref else a.get("bytes_remaining")
            if br is not None and "bytes_remaining" in real and real["bytes_remaining"] != br:
                bad = f"bytes_remaining = {real['bytes_remaining']!r} expected {br!r}"
        if bad is None:
            return None
        last = bad
    return last


def compare(tname, data, command_code=None, enc=False, mode="strict"):
    """None if the real decoder agrees with the reference semantics on this input, else a description"""
    L = layout()
    ref = refsem.decode(L, tname, data, command_code, enc, mode=mode)
    real = real_decode(tname, data, command_code, enc, mode)
    if ref["error"] is not None and ref["error"]["kind"] == "unspecified":
        internal = real["error"] is not None and real["error"]["kind"] not in refsem_documented()
        return None  # outside the properties' inputs (known findings F5/F6)
    if mode == "strict":
        m = events_match(ref["events"], real["events"])
        if m:
            return {"what": "events", "detail": m, "ref_error": _j(ref["error"]), "real_error": _j(real["error"])}
        m = error_match(ref["error"], real["error"])
        if m:
            return {"what": "outcome", "detail": m, "ref_error": _j(ref["error"]), "real_error": _j(real["error"])}
        return None
    # warn mode (C07): events before the first warning = strict events; first warning wraps the strict error
    if real["error"] is not None and real["error"]["kind"] not in ("ValueConstraintViolatedError",):
        return {"what": "warn-mode abort", "detail": f"raised {real['error']}", "ref_error": _j(ref["error"])}
    n = real["warnings"][0][0] if real["warnings"] else len(real["events"])
    exp = ref["events"]
    if ref["error"] is None:
        m = events_match(exp, real["events"])
        if m or real["warnings"]:
            return {"what": "warn events", "detail": m or f"unexpected warning {real['warnings'][0]}"}
        return None
    if not real["warnings"]:
        if real["error"] is not None and ref["error"].get("fatal"):
            return None
        return {"what": "warn", "detail": f"no warning, expected {ref['error']['kind']}"}
    m = events_match(exp, real["events"][:n])
    if m:
        return {"what": "warn prefix", "detail": m}
    m = error_match(ref["error"], real["warnings"][0][1])
    if m and ref["error"]["kind"] not in ("InputStreamBytesDepletedError",):
        return {"what": "first warning", "detail": m, "ref_error": _j(ref["error"]), "real": _j(real["warnings"][0][1])}
    return None


def refsem_documented():
    return ("ValueConstraintViolatedError", "SizeConstraintExceededError", "SizeConstraintSubceededError", "AnticipatedSizeConstraintExceededError",
            "InputStreamBytesDepletedError", "InputStreamSuperfluousBytesError")


def _j(d):
    if d is None:
        return None
    out = {}
    for k, v in d.items():
        if isinstance(v, bytes):
            out[k] = v.hex()
        elif isinstance(v, list):
            out[k] = [x.hex() if isinstance(x, bytes) else (_j(x) if isinstance(x, dict) else x) for x in v]
        else:
            out[k] = v
    return out


def candidates(tname, rng, n=6, with_faults=True, ccn=None, enc=False):
    """(label, bytes, command_code, enc) inputs relevant to type tname"""
    L = layout()
    g = witness.Gen(L, rng)
    out = []
    ccs = sorted(L["commands"])
    for i in range(n):
        if tname == "Command":
            c = ccn or rng.choice(ccs)
            sess = rng.choice([0, 0, 1, 2])
            dec = sess > 0 and rng.random() < 0.3 and f"cmd_params:{c}" in L["encrypted"]
            data = g.command(c, sess, decrypt=dec)
            out.append((f"well-formed {c} sessions={sess} decrypt={dec}", data, None, False, list(g.marks)))
        elif tname == "Response":
            c = ccn or rng.choice(ccs)
            sess = rng.choice([0, 0, 1, 2])
            e = enc if ccn else (sess > 0 and rng.random() < 0.3 and f"rsp_params:{c}" in L["encrypted"])
            if e and not sess:
                sess = 1
            rc = rng.choice([0, 0, 0, 0x101, 0x9a2])
            data = g.response(c, sess, encrypt=bool(e) and rc == 0, rc=rc)
            out.append((f"well-formed {c} sessions={sess} encrypt={e} rc={rc:#x}", data, L["commands"][c]["cc"], bool(e) and rc == 0 and sess > 0, list(g.marks)))
        elif tname == "CommandResponseStream":
            data = b""
            for _ in range(rng.randrange(1, 4)):
                c = rng.choice(ccs)
                sess = rng.choice([0, 1])
                e = sess > 0 and rng.random() < 0.3 and f"rsp_params:{c}" in L["encrypted"]
                data += g.command(c, sess, encrypt=e)
                data += g.response(c, sess, encrypt=e, rc=rng.choice([0, 0, 0x101]))
            out.append(("well-formed stream", data, None, False, []))
        else:
            data = g.value_of(tname)
            out.append((f"well-formed {tname}", data, None, False, list(g.marks)))
    if with_faults:
        for label, data, cc, e, marks in list(out):
            for fl, fd in witness.faults(data, marks, L, rng):
                out.append((f"{label} + {fl}", fd, cc, e, []))
    return [(a, b, c, d) for a, b, c, d, _ in out]


def mutate(data, rng):
    """unstructured damage: a few byte-level edits anywhere in the encoding (set / flip / delete / insert / truncate / repeat)"""
    b = bytearray(data)
    for _ in range(rng.choice([1, 1, 2, 3])):
        op = rng.choice(["set", "set", "flip", "del", "ins", "trunc", "dup"])
        if not b:
            op = "ins"
        if op == "set":
            b[rng.randrange(len(b))] = rng.choice([0, 1, 0xFF, 0x80, 0x7F, rng.randrange(256)])
        elif op == "flip":
            i = rng.randrange(len(b))
            b[i] ^= 1 << rng.randrange(8)
        elif op == "del":
            del b[rng.randrange(len(b))]
        elif op == "ins":
            b.insert(rng.randrange(len(b) + 1), rng.randrange(256))
        elif op == "trunc":
            del b[rng.randrange(len(b)):]
        else:
            i = rng.randrange(len(b))
            b[i:i] = b[i:i + rng.randrange(1, 5)]
    return bytes(b)


def sweep(types, seed=0, n=4, modes=("strict",), with_faults=True, mutations=0):
    """mutations: per well-formed candidate that many byte-level mutants more, compared in strict mode only (warn mode beyond the
    first problem is where the open findings live)"""
    rng = random.Random(seed)
    mrng = random.Random(seed * 7919 + 13)
    bad = []
    total = 0
    for t in types:
        for label, data, cc, e in candidates(t, rng, n, with_faults):
            for mode in modes:
                total += 1
                r = compare(t, data, cc, e, mode)
                if r:
                    bad.append({"type": t, "mode": mode, "label": label, "input": data.hex(), "command_code": cc, "enc": e, **r})
            if mutations and label.startswith("well-formed") and " + " not in label:
                for k in range(mutations):
                    d = mutate(data, mrng)
                    total += 1
                    r = compare(t, d, cc, e, "strict")
                    if r:
                        bad.append({"type": t, "mode": "strict", "label": f"{label} + byte-level mutant {k}", "input": d.hex(), "command_code": cc, "enc": e, **r})
    return total, bad


if __name__ == "__main__":
    L = layout()
    types = sys.argv[1:] or (sorted(L["structs"]) + sorted(L["tpm2b"]) + ["Command", "Response", "CommandResponseStream"])
    types = [t for t in types if t != "TPM2B_ENCRYPTED_PARAM"]
    total, bad = sweep(types, n=3, modes=("strict", "warn"))
    print(total, "inputs,", len(bad), "disagreements")
    for b in bad[:25]:
        print(json.dumps(b)[:600])
